#!/bin/bash
# keepmut.sh <src-dir> <seed-id> <property> "<caught-by checks>" "<needs>" "<status: caught|caught-after-strengthening|missed>"
src=$1; id=$2; prop=$3; caught=$4; needs=$5; status=$6
d=/verif/seeded/$id
mkdir -p $d
cp $src/patch.diff $d/patch.diff
cp $src/demo_test.go $d/demo_test.go 2>/dev/null
cp $src/notes.md $d/notes.md 2>/dev/null
python3 - "$d" "$id" "$prop" "$caught" "$needs" "$status" <<'PY'
import json,sys
d,id,prop,caught,needs,status=sys.argv[1:7]
meta={"id":id,"property":prop,"needs_to_manifest":needs,"status":status,
 "caught_by":caught.split(),
 "confirmed":"scratch worktree of /repo HEAD: patch applies, go build ok, the three pinned test modules (root, fuzz, tests) pass with it, demo_test.go (placed in the worktree root as zz_demo_test.go, go test -run . .) fails with the patch and passes without it; then git -C /repo apply patch.diff; ./run.sh <check> quick; git -C /repo checkout -- . (see evalmut.sh)",
 "origin":"independent sub-agent given only the property text and a scratch worktree"}
json.dump(meta,open(d+"/meta.json","w"),indent=1)
PY
echo kept $id
