#!/bin/bash
# Runs the repository's pinned suite with the verif build tag OFF.
export GOFLAGS=-mod=mod GOPROXY=off GOSUMDB=off GOTOOLCHAIN=local
rc=0
for m in . fuzz tests; do
  (cd /repo/$m && go test -vet=off -count=1 -timeout 25m ./...) || rc=1
done
exit $rc
