#!/bin/bash
# Builds the framework offline from files on disk only (driver + all worker variants, warming the Go build cache).
cd "$(dirname "$(readlink -f "$0")")" || exit 1
export GOFLAGS=-mod=mod GOPROXY=off GOSUMDB=off GOTOOLCHAIN=local CGO_ENABLED=1
mkdir -p .work evidence
go build -o .work/vcheck ./cmd/vcheck || exit 1
go vet ./schema ./wire ./ref ./gen ./mon ./harness >/dev/null 2>&1
go build -tags verif -o .work/vworker-plain ./cmd/vworker || exit 1
go build -tags verif -gcflags=all=-d=checkptr -o .work/vworker-checkptr ./cmd/vworker || exit 1
go build -tags verif -race -o .work/vworker-race ./cmd/vworker || exit 1
go build -tags verif -asan -o .work/vworker-asan ./cmd/vworker || exit 1
echo setup ok
