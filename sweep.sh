#!/bin/bash
# sweep.sh <tier> <seeds...> : runs every check at the given seeds (used through `vp run --with-repo`),
# against $VP_RUN_REPO when set so that edits to /repo do not disturb the sweep.
cd "$(dirname "$(readlink -f "$0")")"
tier=$1; shift
if [ -n "$VP_RUN_REPO" ]; then sed -i "s#=> /repo#=> $VP_RUN_REPO#" go.mod; fi
for s in "$@"; do
  for c in C01 C02 C03 C04 C05 C06 C07 C08 C09 C10 C11 C12 C13 C14 C15 C16 C17 C18; do
    VERIF_SEED=$s ./run.sh $c $tier > out_${c}_$s.txt 2>&1; rc=$?
    echo "seed=$s $c rc=$rc $(tail -1 out_${c}_$s.txt)"
    grep -E "^(VIOLATION|INCONCLUSIVE|KNOWN)" out_${c}_$s.txt | head -5
  done
done
