// Package wire is a schema-less Thrift Binary Protocol parser written for the
// harness. It records the byte extent of everything it reads, gives a
// three-valued well-formedness verdict and can re-serialise a message
// canonically (map entries sorted) so that two encodings can be compared up to
// map order.
package wire

import (
	"bytes"
	"encoding/binary"
	"fmt"
	"sort"
)

const (
	TStop   = 0
	TBool   = 2
	TByte   = 3
	TDouble = 4
	TI16    = 6
	TI32    = 8
	TI64    = 10
	TString = 11
	TStruct = 12
	TMap    = 13
	TSet    = 14
	TList   = 15
)

type Verdict int

const (
	WellFormed Verdict = iota
	Lenient            // well-formed except for encodings on which conforming readers differ
	Malformed
)

func (v Verdict) String() string { return [...]string{"WELLFORMED", "LENIENT", "MALFORMED"}[v] }

// FixedSize of a wire type, 0 if variable, -1 if the code is not a value type.
func FixedSize(t byte) int {
	switch t {
	case TBool, TByte:
		return 1
	case TI16:
		return 2
	case TI32:
		return 4
	case TI64, TDouble:
		return 8
	case TString, TStruct, TMap, TSet, TList:
		return 0
	}
	return -1
}

type Node struct {
	T          byte
	Start, End int // extent of the value in the message
	// containers
	ET, KT   byte
	Count    int
	Elems    []*Node // list/set: elements; map: k0,v0,k1,v1,...
	Fields   []*FieldNode
	StopOff  int // struct: offset of the STOP byte
	parentOK bool
}

type FieldNode struct {
	HdrOff int // offset of the type byte; value follows at HdrOff+3
	T      byte
	ID     uint16
	V      *Node
}

// Site is a structural byte position, used to aim corruptions.
type Site struct {
	Off  int
	Len  int
	Kind string // ftype, fid, strlen, count, etype, ktype, vtype, stop
}

type Result struct {
	Root     *Node
	N        int // bytes consumed by the top-level struct (valid when Verdict != Malformed)
	Verdict  Verdict
	Reason   string // for Malformed: truncated | negative | badtype
	ErrOff   int
	MaxDepth int // nesting levels of struct/list/set/map values, top-level struct = 1
	Lenient  []string
	Sites    []Site
}

type parser struct {
	b        []byte
	res      *Result
	maxDepth int
	sites    bool
}

type perr struct {
	reason string
	off    int
}

func (e *perr) Error() string { return fmt.Sprintf("%s at %d", e.reason, e.off) }

// RecursionCap bounds the parser's own recursion; deeper input is reported as
// Malformed/"toodeep" (no check relies on it below this many levels).
const RecursionCap = 3000

// Parse parses a top-level struct starting at b[0].
func Parse(b []byte) *Result { return parse(b, true) }

func parse(b []byte, sites bool) *Result {
	p := &parser{b: b, res: &Result{}, sites: sites}
	n, end, err := p.structAt(0, 1)
	if err != nil {
		pe := err.(*perr)
		p.res.Verdict = Malformed
		p.res.Reason = pe.reason
		p.res.ErrOff = pe.off
		p.res.MaxDepth = p.maxDepth
		return p.res
	}
	p.res.Root = n
	p.res.N = end
	p.res.MaxDepth = p.maxDepth
	if len(p.res.Lenient) > 0 {
		p.res.Verdict = Lenient
	}
	return p.res
}

func (p *parser) site(off, l int, kind string) {
	if p.sites {
		p.res.Sites = append(p.res.Sites, Site{off, l, kind})
	}
}

func (p *parser) need(off, n int) error {
	if off+n > len(p.b) || off+n < off {
		return &perr{"truncated", off}
	}
	return nil
}

func (p *parser) depth(d int) error {
	if d > p.maxDepth {
		p.maxDepth = d
	}
	if d > RecursionCap {
		return &perr{"toodeep", 0}
	}
	return nil
}

func (p *parser) structAt(off, depth int) (*Node, int, error) {
	if err := p.depth(depth); err != nil {
		return nil, 0, err
	}
	n := &Node{T: TStruct, Start: off}
	i := off
	for {
		if err := p.need(i, 1); err != nil {
			return nil, 0, err
		}
		t := p.b[i]
		if t == TStop {
			p.site(i, 1, "stop")
			n.StopOff = i
			n.End = i + 1
			return n, i + 1, nil
		}
		if FixedSize(t) < 0 {
			return nil, 0, &perr{"badtype", i}
		}
		if err := p.need(i, 3); err != nil {
			return nil, 0, err
		}
		p.site(i, 1, "ftype")
		p.site(i+1, 2, "fid")
		f := &FieldNode{HdrOff: i, T: t, ID: binary.BigEndian.Uint16(p.b[i+1:])}
		v, end, err := p.valueAt(t, i+3, depth+1)
		if err != nil {
			return nil, 0, err
		}
		f.V = v
		n.Fields = append(n.Fields, f)
		i = end
	}
}

func (p *parser) count(off int) (int, error) {
	if err := p.need(off, 4); err != nil {
		return 0, err
	}
	c := int(int32(binary.BigEndian.Uint32(p.b[off:])))
	if c < 0 {
		return 0, &perr{"negative", off}
	}
	return c, nil
}

// valueAt parses a value of wire type t at off. depth is the nesting level the
// value would have if it is a struct/container.
func (p *parser) valueAt(t byte, off, depth int) (*Node, int, error) {
	if fs := FixedSize(t); fs > 0 {
		if err := p.need(off, fs); err != nil {
			return nil, 0, err
		}
		if t == TBool && p.b[off] > 1 {
			p.res.Lenient = append(p.res.Lenient, fmt.Sprintf("bool=%d@%d", p.b[off], off))
		}
		return &Node{T: t, Start: off, End: off + fs}, off + fs, nil
	}
	switch t {
	case TString:
		l, err := p.count(off)
		if err != nil {
			return nil, 0, err
		}
		p.site(off, 4, "strlen")
		if err := p.need(off+4, l); err != nil {
			return nil, 0, err
		}
		return &Node{T: t, Start: off, End: off + 4 + l, Count: l}, off + 4 + l, nil
	case TStruct:
		return p.structAt(off, depth)
	case TList, TSet:
		if err := p.depth(depth); err != nil {
			return nil, 0, err
		}
		if err := p.need(off, 5); err != nil {
			return nil, 0, err
		}
		et := p.b[off]
		c, err := p.count(off + 1)
		if err != nil {
			return nil, 0, err
		}
		p.site(off, 1, "etype")
		p.site(off+1, 4, "count")
		n := &Node{T: t, Start: off, ET: et, Count: c}
		if FixedSize(et) < 0 {
			if c > 0 {
				return nil, 0, &perr{"badtype", off}
			}
			p.res.Lenient = append(p.res.Lenient, fmt.Sprintf("emptylist-etype=%d@%d", et, off))
		}
		i := off + 5
		if fs := FixedSize(et); fs > 0 && et != TBool {
			// do not materialise a node per scalar
			if c > (len(p.b)-i)/fs {
				return nil, 0, &perr{"truncated", i}
			}
			n.End = i + c*fs
			return n, n.End, nil
		}
		for j := 0; j < c; j++ {
			e, end, err := p.valueAt(et, i, depth+1)
			if err != nil {
				return nil, 0, err
			}
			n.Elems = append(n.Elems, e)
			i = end
		}
		n.End = i
		return n, i, nil
	case TMap:
		if err := p.depth(depth); err != nil {
			return nil, 0, err
		}
		if err := p.need(off, 6); err != nil {
			return nil, 0, err
		}
		kt, vt := p.b[off], p.b[off+1]
		c, err := p.count(off + 2)
		if err != nil {
			return nil, 0, err
		}
		p.site(off, 1, "ktype")
		p.site(off+1, 1, "vtype")
		p.site(off+2, 4, "count")
		n := &Node{T: t, Start: off, KT: kt, ET: vt, Count: c}
		if FixedSize(kt) < 0 || FixedSize(vt) < 0 {
			if c > 0 {
				return nil, 0, &perr{"badtype", off}
			}
			p.res.Lenient = append(p.res.Lenient, fmt.Sprintf("emptymap-types=%d,%d@%d", kt, vt, off))
		}
		i := off + 6
		for j := 0; j < c; j++ {
			k, end, err := p.valueAt(kt, i, depth+1)
			if err != nil {
				return nil, 0, err
			}
			v, end2, err := p.valueAt(vt, end, depth+1)
			if err != nil {
				return nil, 0, err
			}
			n.Elems = append(n.Elems, k, v)
			i = end2
		}
		n.End = i
		return n, i, nil
	}
	return nil, 0, &perr{"badtype", off}
}

// SkipInfo describes a skipped value.
type SkipInfo struct {
	End     int
	Levels  int // nesting levels inside the skipped value (0 for scalars/strings)
	Lenient bool
}

// Skip measures the value of wire type t at b[off:]. It returns an error reason
// ("truncated", "negative", "badtype", "toodeep") or "".
func Skip(b []byte, t byte, off int) (SkipInfo, string) {
	p := &parser{b: b, res: &Result{}}
	if FixedSize(t) < 0 {
		return SkipInfo{}, "badtype"
	}
	_, end, err := p.valueAt(t, off, 1)
	if err != nil {
		return SkipInfo{}, err.(*perr).reason
	}
	return SkipInfo{End: end, Levels: p.maxDepth, Lenient: len(p.res.Lenient) > 0}, ""
}

// Canon re-serialises the message with the entries of every map sorted by
// (canonical key bytes, canonical value bytes). b must be well-formed.
func Canon(b []byte) ([]byte, error) {
	r := parse(b, false)
	if r.Verdict == Malformed {
		return nil, fmt.Errorf("canon: malformed (%s at %d)", r.Reason, r.ErrOff)
	}
	var out []byte
	out = canonNode(out, b, r.Root)
	return out, nil
}

// CanonSorted is Canon with, in addition, the fields of every struct sorted by
// (id, wire type): two messages are equal under it iff every struct instance
// carries the same fields with the same values, whatever the field order.
func CanonSorted(b []byte) ([]byte, error) {
	r := parse(b, false)
	if r.Verdict == Malformed {
		return nil, fmt.Errorf("canon: malformed (%s at %d)", r.Reason, r.ErrOff)
	}
	sortFields(r.Root)
	return canonNode(nil, b, r.Root), nil
}

func sortFields(n *Node) {
	if n.T == TStruct {
		sort.SliceStable(n.Fields, func(i, j int) bool {
			if n.Fields[i].ID != n.Fields[j].ID {
				return n.Fields[i].ID < n.Fields[j].ID
			}
			return n.Fields[i].T < n.Fields[j].T
		})
		for _, f := range n.Fields {
			sortFields(f.V)
		}
		return
	}
	for _, e := range n.Elems {
		sortFields(e)
	}
}

func canonNode(out, b []byte, n *Node) []byte {
	switch n.T {
	case TStruct:
		for _, f := range n.Fields {
			out = append(out, b[f.HdrOff:f.HdrOff+3]...)
			out = canonNode(out, b, f.V)
		}
		return append(out, 0)
	case TList, TSet:
		out = append(out, b[n.Start:n.Start+5]...)
		if n.Elems == nil {
			return append(out, b[n.Start+5:n.End]...)
		}
		for _, e := range n.Elems {
			out = canonNode(out, b, e)
		}
		return out
	case TMap:
		out = append(out, b[n.Start:n.Start+6]...)
		type ent struct{ k, v []byte }
		ents := make([]ent, 0, n.Count)
		for i := 0; i+1 < len(n.Elems); i += 2 {
			ents = append(ents, ent{canonNode(nil, b, n.Elems[i]), canonNode(nil, b, n.Elems[i+1])})
		}
		sort.SliceStable(ents, func(i, j int) bool {
			if c := bytes.Compare(ents[i].k, ents[j].k); c != 0 {
				return c < 0
			}
			return bytes.Compare(ents[i].v, ents[j].v) < 0
		})
		for _, e := range ents {
			out = append(out, e.k...)
			out = append(out, e.v...)
		}
		return out
	}
	return append(out, b[n.Start:n.End]...)
}

// Contains reports whether message big carries everything message small carries:
// every struct instance of small has a counterpart in big holding at least the
// same fields with the same (recursively contained) values; lists and sets match
// element by element, map entries by key. Extra fields in big are allowed (a
// forwarding reader may materialise empty defaults). It returns a description of
// the first thing missing, or "".
func Contains(big, small []byte) string {
	rb, rs := parse(big, false), parse(small, false)
	if rb.Verdict == Malformed {
		return "the larger message is malformed: " + rb.Reason
	}
	if rs.Verdict == Malformed {
		return "the smaller message is malformed: " + rs.Reason
	}
	sortFields(rb.Root)
	sortFields(rs.Root)
	return contains(rb.Root, rs.Root, big, small, "")
}

func contains(bn, sn *Node, bb, sb []byte, path string) string {
	if bn.T != sn.T {
		return fmt.Sprintf("%s: wire type %d vs %d", path, bn.T, sn.T)
	}
	switch sn.T {
	case TStruct:
		used := make([]bool, len(bn.Fields))
		for _, sf := range sn.Fields {
			found := false
			var why string
			for i, bf := range bn.Fields {
				if used[i] || bf.ID != sf.ID || bf.T != sf.T {
					continue
				}
				if why = contains(bf.V, sf.V, bb, sb, fmt.Sprintf("%s.%d", path, sf.ID)); why == "" {
					used[i] = true
					found = true
					break
				}
			}
			if !found {
				if why == "" {
					why = fmt.Sprintf("%s: field %d (wire type %d) is missing", path, sf.ID, sf.T)
				}
				return why
			}
		}
		return ""
	case TList, TSet:
		if bn.ET != sn.ET || bn.Count != sn.Count {
			return fmt.Sprintf("%s: element type/count %d/%d vs %d/%d", path, bn.ET, bn.Count, sn.ET, sn.Count)
		}
		if sn.Elems == nil {
			if !bytes.Equal(bb[bn.Start:bn.End], sb[sn.Start:sn.End]) {
				return path + ": scalar elements differ"
			}
			return ""
		}
		for i := range sn.Elems {
			if why := contains(bn.Elems[i], sn.Elems[i], bb, sb, fmt.Sprintf("%s[%d]", path, i)); why != "" {
				return why
			}
		}
		return ""
	case TMap:
		if bn.KT != sn.KT || bn.ET != sn.ET || bn.Count != sn.Count {
			return fmt.Sprintf("%s: map types/count differ", path)
		}
		used := make([]bool, len(bn.Elems)/2)
		done := make([]bool, len(sn.Elems)/2)
		// first pass: identical entries (containment alone is ambiguous when one key
		// is contained in several), second pass: containment for the rest
		for i := 0; i+1 < len(sn.Elems); i += 2 {
			sk, sv := canonNode(nil, sb, sn.Elems[i]), canonNode(nil, sb, sn.Elems[i+1])
			for j := 0; j+1 < len(bn.Elems); j += 2 {
				if !used[j/2] && bytes.Equal(sk, canonNode(nil, bb, bn.Elems[j])) && bytes.Equal(sv, canonNode(nil, bb, bn.Elems[j+1])) {
					used[j/2], done[i/2] = true, true
					break
				}
			}
		}
		for i := 0; i+1 < len(sn.Elems); i += 2 {
			if done[i/2] {
				continue
			}
			found := false
			for j := 0; j+1 < len(bn.Elems); j += 2 {
				if used[j/2] {
					continue
				}
				if contains(bn.Elems[j], sn.Elems[i], bb, sb, path) == "" && contains(bn.Elems[j+1], sn.Elems[i+1], bb, sb, path) == "" {
					used[j/2] = true
					found = true
					break
				}
			}
			if !found {
				return fmt.Sprintf("%s: map entry %d has no counterpart", path, i/2)
			}
		}
		return ""
	}
	if !bytes.Equal(bb[bn.Start:bn.End], sb[sn.Start:sn.End]) {
		return fmt.Sprintf("%s: value %x vs %x", path, bb[bn.Start:bn.End], sb[sn.Start:sn.End])
	}
	return ""
}
