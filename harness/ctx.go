// Package harness is the worker-side runtime: it logs every case before running
// it, catches panics, collects monitor reports, streams results as JSON lines and
// keeps a CPU-time watchdog so that a non-terminating case is attributed.
package harness

import (
	"encoding/json"
	"fmt"
	"hash/fnv"
	"os"
	"runtime"
	"runtime/debug"
	"runtime/metrics"
	"strings"
	"sync"
	"syscall"
	"time"

	"verif/gen"
)

// Line is one record of the worker's result stream.
type Line struct {
	T      string           `json:"t"` // B begin, E end, V violation, I inconclusive note
	I      int              `json:"i"`
	D      string           `json:"d,omitempty"`   // B: case description
	K      string           `json:"k,omitempty"`   // B: signature hint for fatal faults
	Hash   string           `json:"h,omitempty"`   // E: shape hash
	NT     bool             `json:"nt,omitempty"`  // E: non-trivial by the check's rule
	Tags   []string         `json:"tags,omitempty"`
	Counts map[string]int64 `json:"n,omitempty"`
	Sample interface{}      `json:"s,omitempty"`
	Oracle string           `json:"o,omitempty"`   // V
	Sig    string           `json:"sig,omitempty"` // V
	Msg    string           `json:"msg,omitempty"` // V, I
}

type Ctx struct {
	Check string
	Tier  string
	Build string
	Seed  uint64
	// Env is the logical environment of this worker run (for checks that
	// compare across configurations).
	mu      sync.Mutex
	out     *os.File
	idx     int
	desc    string
	hint    string
	tags    []string
	counts  map[string]int64
	shape   []string
	nontriv bool
	sample  interface{}
	samples int
	viols   int

	caseCPUStart time.Duration
	cpuLimit     time.Duration
	memLimit     uint64
	running      bool
	aborted      bool
}

// Abort ends this worker's shard after the current case: the process state is beyond
// repair (e.g. a lock that is never released), every further case would only repeat
// the violation already reported, slowly.
func (c *Ctx) Abort() {
	c.mu.Lock()
	c.aborted = true
	c.mu.Unlock()
}

func (c *Ctx) Aborted() bool {
	c.mu.Lock()
	defer c.mu.Unlock()
	return c.aborted
}

func NewCtx(check, tier, build string, seed uint64, out *os.File) *Ctx {
	c := &Ctx{Check: check, Tier: tier, Build: build, Seed: seed, out: out, cpuLimit: 120 * time.Second, memLimit: 3 << 30}
	go c.watchdog()
	return c
}

func (c *Ctx) write(l *Line) {
	b, err := json.Marshal(l)
	if err != nil {
		b, _ = json.Marshal(&Line{T: l.T, I: l.I, Msg: "unmarshalable: " + err.Error()})
	}
	b = append(b, '\n')
	c.out.Write(b)
}

// Rand returns the case's generator.
func (c *Ctx) Rand(idx int) *gen.Rand { return gen.For(c.Seed, c.Check, idx) }

// Idx returns the index of the running case.
func (c *Ctx) Idx() int { return c.idx }

// MemTotal is the memory the Go runtime holds for this process.
func MemTotal() uint64 { return memTotal() }

func memTotal() uint64 {
	s := []metrics.Sample{{Name: "/memory/classes/total:bytes"}}
	metrics.Read(s)
	return s[0].Value.Uint64()
}

func cpuTime() time.Duration {
	var ru syscall.Rusage
	syscall.Getrusage(syscall.RUSAGE_SELF, &ru)
	return time.Duration(ru.Utime.Nano() + ru.Stime.Nano())
}

// SetCPULimit changes the per-case CPU budget.
func (c *Ctx) SetCPULimit(d time.Duration) { c.cpuLimit = d }

func (c *Ctx) watchdog() {
	for {
		time.Sleep(200 * time.Millisecond)
		c.mu.Lock()
		if c.running && memTotal() > c.memLimit {
			c.write(&Line{T: "V", I: c.idx, Oracle: "memory", Sig: c.Check + "/memory-budget", K: c.hint, Msg: fmt.Sprintf("process memory exceeded %d MiB during: %s", c.memLimit>>20, c.desc)})
			c.out.Sync()
			os.Exit(3)
		}
		if c.running && cpuTime()-c.caseCPUStart > c.cpuLimit {
			c.write(&Line{T: "V", I: c.idx, Oracle: "cpu", Sig: c.Check + "/cpu-budget", K: c.hint, Msg: fmt.Sprintf("case used more than %v of CPU time: %s", c.cpuLimit, c.desc)})
			c.out.Sync()
			os.Exit(3)
		}
		c.mu.Unlock()
	}
}

// Describe sets the description logged before the case body runs. It must be
// called (once) before the code under test is touched.
func (c *Ctx) Describe(format string, a ...interface{}) {
	d := fmt.Sprintf(format, a...)
	if len(d) > 4000 {
		d = d[:4000] + "…"
	}
	c.mu.Lock()
	c.desc = d
	c.write(&Line{T: "B", I: c.idx, D: d, K: c.hint})
	c.mu.Unlock()
}

// Hint sets the signature component used when the case dies with a fatal fault.
func (c *Ctx) Hint(h string) { c.mu.Lock(); c.hint = h; c.mu.Unlock() }

// Step logs a sub-step of the running case (so that a fatal fault identifies it).
// The CPU budget applies per logged step: cases that bundle thousands of
// executions are not charged for their sum.
func (c *Ctx) Step(format string, a ...interface{}) {
	d := fmt.Sprintf(format, a...)
	if len(d) > 4000 {
		d = d[:4000] + "…"
	}
	c.mu.Lock()
	c.caseCPUStart = cpuTime()
	c.desc = d
	c.write(&Line{T: "B", I: c.idx, D: d, K: c.hint})
	c.mu.Unlock()
}

func (c *Ctx) Tag(t string) {
	c.mu.Lock()
	c.tags = append(c.tags, t)
	c.mu.Unlock()
}

func (c *Ctx) Count(k string, n int64) {
	c.mu.Lock()
	if c.counts == nil {
		c.counts = map[string]int64{}
	}
	c.counts[k] += n
	c.mu.Unlock()
}

// Shape adds a component to the case's shape signature (distinctness).
func (c *Ctx) Shape(s string) {
	c.mu.Lock()
	c.shape = append(c.shape, s)
	c.mu.Unlock()
}

// NonTrivial marks the case as non-trivial by the check's stated rule.
func (c *Ctx) NonTrivial() { c.nontriv = true }

// Sample offers a written-out case for the evidence file.
func (c *Ctx) Sample(v interface{}) {
	if c.samples < 3 && c.sample == nil {
		c.sample = v
		c.samples++
	}
}

// Violation reports an oracle failure.
func (c *Ctx) Violation(oracle, sig, format string, a ...interface{}) {
	msg := fmt.Sprintf(format, a...)
	if len(msg) > 6000 {
		msg = msg[:6000] + "…"
	}
	c.mu.Lock()
	c.viols++
	if c.viols <= 200 {
		c.write(&Line{T: "V", I: c.idx, Oracle: oracle, Sig: sig, Msg: msg + " || case: " + c.desc})
	}
	c.mu.Unlock()
}

// Inconclusive records that a sub-monitor could not decide.
func (c *Ctx) Inconclusive(format string, a ...interface{}) {
	c.mu.Lock()
	c.write(&Line{T: "I", I: c.idx, Msg: fmt.Sprintf(format, a...)})
	c.mu.Unlock()
}

// PanicClass abstracts a recovered panic value into a stable class.
func PanicClass(v interface{}) string {
	s := fmt.Sprint(v)
	if _, ok := v.(runtime.Error); ok {
		switch {
		case strings.Contains(s, "index out of range"):
			return "runtime:index-out-of-range"
		case strings.Contains(s, "slice bounds out of range"):
			return "runtime:slice-bounds"
		case strings.Contains(s, "nil pointer dereference"):
			return "runtime:nil-deref"
		case strings.Contains(s, "makeslice"), strings.Contains(s, "makemap"):
			return "runtime:make-size"
		}
		return "runtime:other"
	}
	if len(s) > 40 {
		s = s[:40]
	}
	return "panic:" + s
}

// RunCase executes body as case idx with logging and panic capture. drain is
// called after the body to collect hook monitor reports.
func (c *Ctx) RunCase(idx int, body func(), drain func() []string) {
	c.mu.Lock()
	c.idx = idx
	c.desc = ""
	c.hint = ""
	c.tags = nil
	c.counts = nil
	c.shape = nil
	c.nontriv = false
	c.sample = nil
	c.caseCPUStart = cpuTime()
	c.running = true
	c.write(&Line{T: "B", I: idx, D: "start"})
	c.mu.Unlock()
	func() {
		defer func() {
			if r := recover(); r != nil {
				st := string(debug.Stack())
				c.Violation("panic", c.Check+"/escaped-panic/"+PanicClass(r), "panic escaped the API or the harness: %v\n%s", r, trimStack(st))
			}
		}()
		body()
	}()
	if drain != nil {
		for _, r := range drain() {
			c.Violation("hook-monitor", c.Check+"/hook-monitor/"+firstWords(r, 2), "%s", r)
		}
	}
	c.mu.Lock()
	c.running = false
	h := fnv.New64a()
	for _, s := range c.shape {
		h.Write([]byte(s))
		h.Write([]byte{0})
	}
	l := &Line{T: "E", I: idx, Hash: fmt.Sprintf("%016x", h.Sum64()), NT: c.nontriv, Tags: c.tags, Counts: c.counts, Sample: c.sample}
	c.write(l)
	c.mu.Unlock()
}

func firstWords(s string, n int) string {
	f := strings.Fields(s)
	if len(f) > n {
		f = f[:n]
	}
	return strings.Join(f, "-")
}

func trimStack(s string) string {
	lines := strings.Split(s, "\n")
	var keep []string
	for _, l := range lines {
		if strings.Contains(l, "runtime/debug") || strings.Contains(l, "runtime/panic") {
			continue
		}
		keep = append(keep, l)
		if len(keep) > 24 {
			break
		}
	}
	return strings.Join(keep, "\n")
}

// Finish writes the end-of-shard record with the hook counters.
func (c *Ctx) Finish(hook []int64) {
	c.mu.Lock()
	m := map[string]int64{}
	names := []string{"pool_decoder", "pool_bitset", "pool_unknown", "pool_maptmp", "pool_rv", "yield_before_lock", "yield_between_sets", "yield_after_cache_insert", "yield_before_store", "span_malloc"}
	for i, v := range hook {
		if i < len(names) {
			m["hook_"+names[i]] = v
		}
	}
	c.write(&Line{T: "F", I: -1, Counts: m})
	c.mu.Unlock()
}

// Next tells the driver that the shard continues at case idx in a new process.
func (c *Ctx) Next(idx int) {
	c.mu.Lock()
	c.write(&Line{T: "N", I: idx})
	c.mu.Unlock()
}
