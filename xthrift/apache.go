// Package xthrift uses Apache Thrift's TBinaryProtocol (v0.13.0) as a second,
// independent Thrift implementation: Copy reads a struct generically and writes
// what it read with Apache's own writer. For a message that Apache understands
// the same way as its author, the copy equals the consumed input byte for byte.
package xthrift

import (
	"fmt"

	"github.com/apache/thrift/lib/go/thrift"
)

// Copy parses one struct from in and re-serialises it. consumed is the number
// of input bytes Apache read.
func Copy(in []byte) (out []byte, consumed int, err error) {
	src := thrift.NewTMemoryBufferLen(len(in))
	src.Write(in)
	dst := thrift.NewTMemoryBuffer()
	ip := thrift.NewTBinaryProtocolTransport(src)
	op := thrift.NewTBinaryProtocolTransport(dst)
	if err = copyValue(ip, op, thrift.STRUCT, 0); err != nil {
		return nil, 0, err
	}
	return dst.Bytes(), len(in) - src.Len(), nil
}

func copyValue(ip, op thrift.TProtocol, t thrift.TType, depth int) error {
	if depth > 4000 {
		return fmt.Errorf("too deep")
	}
	switch t {
	case thrift.BOOL:
		v, err := ip.ReadBool()
		if err != nil {
			return err
		}
		return op.WriteBool(v)
	case thrift.BYTE:
		v, err := ip.ReadByte()
		if err != nil {
			return err
		}
		return op.WriteByte(v)
	case thrift.I16:
		v, err := ip.ReadI16()
		if err != nil {
			return err
		}
		return op.WriteI16(v)
	case thrift.I32:
		v, err := ip.ReadI32()
		if err != nil {
			return err
		}
		return op.WriteI32(v)
	case thrift.I64:
		v, err := ip.ReadI64()
		if err != nil {
			return err
		}
		return op.WriteI64(v)
	case thrift.DOUBLE:
		// copy the bit pattern: Apache's ReadDouble/WriteDouble go through float64,
		// which preserves NaN payloads on amd64
		v, err := ip.ReadDouble()
		if err != nil {
			return err
		}
		return op.WriteDouble(v)
	case thrift.STRING:
		v, err := ip.ReadBinary()
		if err != nil {
			return err
		}
		return op.WriteBinary(v)
	case thrift.STRUCT:
		if _, err := ip.ReadStructBegin(); err != nil {
			return err
		}
		if err := op.WriteStructBegin(""); err != nil {
			return err
		}
		for {
			_, ft, id, err := ip.ReadFieldBegin()
			if err != nil {
				return err
			}
			if ft == thrift.STOP {
				break
			}
			if err := op.WriteFieldBegin("", ft, id); err != nil {
				return err
			}
			if err := copyValue(ip, op, ft, depth+1); err != nil {
				return err
			}
			if err := ip.ReadFieldEnd(); err != nil {
				return err
			}
		}
		if err := op.WriteFieldStop(); err != nil {
			return err
		}
		return ip.ReadStructEnd()
	case thrift.MAP:
		kt, vt, n, err := ip.ReadMapBegin()
		if err != nil {
			return err
		}
		if err := op.WriteMapBegin(kt, vt, n); err != nil {
			return err
		}
		for i := 0; i < n; i++ {
			if err := copyValue(ip, op, kt, depth+1); err != nil {
				return err
			}
			if err := copyValue(ip, op, vt, depth+1); err != nil {
				return err
			}
		}
		return ip.ReadMapEnd()
	case thrift.LIST:
		et, n, err := ip.ReadListBegin()
		if err != nil {
			return err
		}
		if err := op.WriteListBegin(et, n); err != nil {
			return err
		}
		for i := 0; i < n; i++ {
			if err := copyValue(ip, op, et, depth+1); err != nil {
				return err
			}
		}
		return ip.ReadListEnd()
	case thrift.SET:
		et, n, err := ip.ReadSetBegin()
		if err != nil {
			return err
		}
		if err := op.WriteSetBegin(et, n); err != nil {
			return err
		}
		for i := 0; i < n; i++ {
			if err := copyValue(ip, op, et, depth+1); err != nil {
				return err
			}
		}
		return ip.ReadSetEnd()
	}
	return fmt.Errorf("apache: unknown type %d", t)
}
