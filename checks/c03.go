package checks

import (
	"reflect"

	"verif/gen"
	"verif/harness"
	"verif/mon"
	"verif/ref"
	"verif/schema"
	"verif/zoo"
)

func init() {
	register(&Check{
		ID:   "C03",
		Rule: "case = (writer schema W, value w, reader type T derived from W by removing/adding/retyping/renumbering fields recursively, random field order on the wire, optional trailing bytes, destination pre-filled with junk); the message comes from the reference encoder or from frugal's own encoder; oracle = whole destination and n equal the reference decoder's on an identically pre-filled destination; distinct = distinct (W shape, T shape); non-trivial = the message carries at least one field T recognises and one it does not",
		Plan: func(tier string) []BuildPlan {
			if tier == "thorough" {
				return []BuildPlan{{"plain", 400000}, {"checkptr", 100000}, {"asan", 30000}}
			}
			return []BuildPlan{{"plain", 5000}, {"checkptr", 2500}}
		},
		Run: runC03,
		Assumptions: []string{
			"messages with duplicate field ids or duplicate map keys are not generated (the transmitted value is undefined)",
			"by-value struct fields of the top-level destination are pre-filled with zero, not junk (C10 only speaks of structs the decoder creates)",
		},
	})
}

// prefill returns two identical junk-filled destinations of t.
func prefillPair(r *gen.Rand, t *schema.Struct) (reflect.Value, reflect.Value) {
	seed := r.Uint64()
	mk := func() reflect.Value {
		rr := gen.New(seed)
		cfg := gen.DefaultValCfg()
		cfg.Budget = 40
		cfg.MaxDepth = 2
		v := gen.NewValue(rr, t, cfg)
		for _, f := range t.Fields {
			if f.T.K == schema.StructK && !f.T.Ptr {
				fv := v.Elem().Field(f.Index)
				fv.Set(reflect.Zero(fv.Type()))
			}
		}
		return v
	}
	return mk(), mk()
}

// evolvePair picks a (writer, reader) pair.
func evolvePair(r *gen.Rand, c *gen.EvolveCfg) (w, t *schema.Struct, class string) {
	if r.Chance(1, 12) {
		// static types read with their own schema (nil elements travel as empty structs,
		// which the reader must still default-initialise, ...)
		z := []interface{}{&zoo.DefsNCHolder{}, &zoo.Defs2{}, &zoo.UnknownNest{}, &zoo.MutA{}, &zoo.Tree{}, &zoo.PV{}, &zoo.Ring1{}}
		s := gen.Zoo(z[r.Intn(len(z))])
		return s, s, "zoo:same:" + s.Name
	}
	if r.Chance(1, 12) {
		w = gen.Zoo(&zoo.Node{})
		if r.Bool() {
			return w, gen.Zoo(&zoo.NodeU{}), "zoo:Node->NodeU"
		}
		return w, gen.Zoo(&zoo.NodeOld{}), "zoo:Node->NodeOld"
	}
	if r.Chance(1, 10) {
		// by-value struct values/elements with fixed-layout (scalar-only) fields, read with the
		// writer's own schema: a foreign writer omits some of them in some entries only
		inner := &schema.Struct{UnknownIdx: -1}
		for i, n := 0, 1+r.Intn(4); i < n; i++ {
			inner.Fields = append(inner.Fields, &schema.Field{ID: uint16(1 + i), Req: schema.Req(r.Intn(2)), T: gen.FormType(r, gen.ValForms[r.Intn(7)], gen.DefaultTypeCfg(), 2)})
		}
		inner.Build()
		o := &schema.Struct{UnknownIdx: -1, Fields: []*schema.Field{
			{ID: 1, Req: schema.Default, T: schema.MapOf(gen.FormType(r, gen.KeyForms[r.Intn(8)], gen.DefaultTypeCfg(), 2), schema.StructOf(inner, false))},
			{ID: 2, Req: schema.Default, T: schema.ListOf(schema.StructOf(inner, false))},
			{ID: 3, Req: schema.Optional, T: schema.MapOf(schema.Scalar(schema.String), schema.StructOf(inner, false))},
		}}
		o.Build()
		return o, o, "same-schema-byvalue-fixed-layout"
	}
	if r.Chance(1, 15) {
		// readers that know no field at all (at the top and/or nested) of messages whose
		// ids start at 0: everything is unknown and must be skipped
		mkW := func() *schema.Struct {
			x := &schema.Struct{UnknownIdx: -1}
			for i, n := 0, 1+r.Intn(3); i < n; i++ {
				x.Fields = append(x.Fields, &schema.Field{ID: uint16(i), Req: schema.Req(r.Intn(3)), T: gen.FormType(r, gen.ValForms[r.Intn(9)], gen.DefaultTypeCfg(), 2)})
				if x.Fields[i].Req == schema.Optional && x.Fields[i].T.IsScalar() && r.Bool() {
					x.Fields[i].T = schema.PtrTo(x.Fields[i].T)
				}
			}
			x.Build()
			return x
		}
		winner := mkW()
		empty := &schema.Struct{UnknownIdx: -1, HasUnknown: r.Bool()}
		empty.Build()
		wo := &schema.Struct{UnknownIdx: -1, Fields: []*schema.Field{
			{ID: 0, Req: schema.Default, T: schema.StructOf(winner, true)},
			{ID: 1, Req: schema.Default, T: schema.ListOf(schema.StructOf(winner, false))},
			{ID: 2, Req: schema.Default, T: schema.Scalar(schema.I32)},
		}}
		wo.Build()
		to := &schema.Struct{UnknownIdx: -1, HasUnknown: r.Bool()}
		if r.Bool() {
			to.Fields = []*schema.Field{
				{ID: 0, Req: schema.Default, T: schema.StructOf(empty, true)},
				{ID: 1, Req: schema.Default, T: schema.ListOf(schema.StructOf(empty, false))},
			}
		}
		to.Build()
		return wo, to, "fieldless-reader"
	}
	tc := gen.DefaultTypeCfg()
	tc.BigIDs = r.Chance(1, 6)
	tc.Extras = false
	tc.NoCopy = r.Chance(1, 3) // readers keep the option: required+nocopy, optional-pointer nocopy ...
	w = gen.RandomStruct(r, tc, 0)
	t = gen.Evolve(r, w, c, 0)
	return w, t, "evolved"
}

// knownUnknown counts the top-level fields of msg-writer w that reader t
// recognises / does not recognise.
func knownUnknown(w, t *schema.Struct, wv reflect.Value) (known, unknown int) {
	for _, f := range w.Fields {
		if p, _ := ref.Presence(w, f, wv); !p {
			continue
		}
		if tf := t.FieldByID(f.ID); tf != nil && tf.T.WT() == f.T.WT() {
			known++
		} else {
			unknown++
		}
	}
	return
}

func runC03(c *harness.Ctx, idx int) {
	r := c.Rand(idx)
	w, t, class := evolvePair(r, &gen.EvolveCfg{})
	vc := gen.DefaultValCfg()
	vc.Big = r.Chance(1, 8)
	wv := gen.NewValue(r, w, vc)
	var msg []byte
	writer := "ref"
	if r.Chance(1, 4) {
		// frugal-written message
		writer = "frugal"
		want := ref.Encode(w, wv.Elem())
		buf := make([]byte, len(want)+64)
		er := fEncode(buf, wv.Interface())
		if er.panicked() || er.err != nil {
			c.Describe("C03 frugal writer failed type=%s", w.Describe())
			c.Violation("writer", "C03/frugal-writer-failed", "EncodeObject failed on writer value: err=%v panic=%v", er.err, er.pv)
			return
		}
		msg = buf[:er.n]
	} else {
		// a foreign writer may also leave out fields it considers unset (any non-required one)
		omit := 0
		if r.Bool() {
			omit = 1 + r.Intn(3)
		}
		msg = ref.EncodeWith(w, wv.Elem(), &ref.EncodeOpts{Order: r.Perm, Omit: func(_ *schema.Struct, f *schema.Field) bool {
			return omit > 0 && f.Req != schema.Required && r.Intn(10) < omit
		}})
	}
	msgLen := len(msg)
	if r.Chance(1, 3) {
		msg = append(append([]byte(nil), msg...), r.Bytes(1+r.Intn(32))...)
	}
	c.Describe("%s writer=%s W=%s T=%s msg=%s", class, writer, w.Describe(), t.Describe(), hexClip(msg))
	c.Hint("T:" + structSig(t))
	c.Tag("class:" + class)
	c.Tag("writer:" + writer)
	c.Shape(w.Sig())
	c.Shape(t.Sig())
	k, u := knownUnknown(w, t, wv.Elem())
	if k > 0 && u > 0 {
		c.NonTrivial()
	}
	c.Count("known_fields", int64(k))
	c.Count("unknown_fields", int64(u))

	exp, act := prefillPair(r, t)
	rn, info, rerr := ref.Decode(t, msg, exp.Elem())
	if rerr != nil {
		// the evolved reader legitimately rejects (e.g. a required field of a
		// nested zoo struct renumbered away): not a C03 case
		c.Tag("skipped:reference-rejects:" + rerr.Class.String())
		return
	}
	if info.DupKey {
		c.Tag("skipped:duplicate-map-key")
		return
	}
	g, reg := mon.GuardedCopy(msg, false)
	defer reg.Free()
	// memory the destination pointed to before the call is the caller's: the decoder
	// must give transmitted values fresh memory, never write through old pointers
	var oldPieces []mon.Piece
	mon.Walk(act.Elem(), "", &oldPieces)
	oldPieces = mon.DropStatic(oldPieces)
	oldImage := mon.Image(oldPieces)
	setPoison(idx%2 == 1) // pool sanitizer in every other case
	dr := fDecode(g, act.Interface())
	setPoison(false)
	if d := mon.CompareImage(oldPieces, oldImage); d != "" && !dr.panicked() && dr.err == nil {
		c.Violation("old-memory", "C03/old-pointee-written", "DecodeObject wrote into memory the destination referenced before the call instead of allocating: %s", d)
	}
	sig := structSig(t)
	switch {
	case dr.panicked():
		c.Violation("panic", "C03/panic/"+panicSig(dr), "DecodeObject panicked on a well-formed message: %v [%s]", dr.pv, shortStack(dr.stack))
		return
	case dr.err != nil:
		c.Violation("rejected", "C03/rejected/"+sig, "DecodeObject rejected a well-formed message: %v", dr.err)
		return
	}
	if dr.n != rn || rn != msgLen {
		c.Violation("n", "C03/n/"+sig, "DecodeObject returned n=%d; the top-level STOP ends at %d (reference decoder %d, input length %d)", dr.n, msgLen, rn, len(msg))
	}
	if d := ref.Diff(t, exp.Elem(), act.Elem(), ref.CmpOpts{}); d != "" {
		fs := ref.FieldDiffSig(t, exp.Elem(), act.Elem(), ref.CmpOpts{})
		c.Violation("destination", "C03/destination/"+fs, "destination differs from the reference decoder's: %s", d)
	}
	c.Sample(map[string]string{"W": w.Describe(), "T": t.Describe(), "msg": hexClip(msg)})
}
