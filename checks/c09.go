package checks

import (
	"errors"
	"fmt"
	"reflect"
	"strings"

	"github.com/cloudwego/gopkg/protocol/thrift"

	"verif/gen"
	"verif/harness"
	"verif/mon"
	"verif/ref"
	"verif/schema"
	"verif/wire"
)

func init() {
	register(&Check{
		ID:   "C09",
		Rule: "case = (type with required fields, value, message omitting a subset of fields at any nesting level, or carrying a field's id with another wire type - instead of, or in addition to and after, its proper occurrence). Enumerated floor: 6-field structs at field-id sets straddling the 64-bit words of the presence set (0,1,63,64,65,127,128,255,256,4095,4096,32767,32768,65534,65535; also sets whose largest id is exactly 31, 32, 64 or 128 while id 0 is declared) with every subset of fields required (64 subsets per id set) and a random subset omitted; then random nested types. Half of the cases run with the pool sanitizer (recycled presence set all ones) and a priming decode of a complete message. Oracle: error iff some recognised struct instance lacks a required field (computed from the schema-less parse tree); the error is a ProtocolException INVALID_DATA naming a missing Go field; the encoder output carries every required field. distinct = distinct (type shape, omitted-id set); non-trivial = at least one required field exists in the type",
		Plan: func(tier string) []BuildPlan {
			if tier == "thorough" {
				return []BuildPlan{{"plain", c09Enumerated + 1000000}, {"checkptr", c09Enumerated + 200000}}
			}
			return []BuildPlan{{"plain", c09Enumerated + 6000}, {"checkptr", c09Enumerated + 2000}}
		},
		Run: runC09,
	})
}

var c09IDSets = [][]uint16{
	{0, 1, 63, 64, 65, 127},
	{62, 63, 64, 128, 129, 191},
	{127, 128, 255, 256, 257, 320},
	{4095, 4096, 4097, 4159, 4160, 4161},
	{32767, 32768, 32769, 32831, 32832, 0},
	{65534, 65535, 65471, 65472, 1, 64},
	{1, 2, 3, 4, 5, 6},
	// the largest id sits exactly on a word boundary of the presence set, id 0 is declared too
	{0, 1, 2, 62, 63, 64},
	{0, 31, 32, 33, 64, 5},
	{0, 63, 127, 128, 7, 9},
	{0, 1, 30, 31, 32, 6},
}

var c09Enumerated = len(c09IDSets) * 64

var c09Kinds = []string{"i32", "string", "bool", "list", "i64", "*struct", "double", "binary", "map"}

func runC09(c *harness.Ctx, idx int) {
	r := c.Rand(idx)
	var s *schema.Struct
	class := "random"
	if idx < c09Enumerated {
		class = "idsets"
		ids := c09IDSets[idx/64]
		mask := idx % 64
		s = &schema.Struct{UnknownIdx: -1}
		tc := &gen.TypeCfg{MaxDepth: 2, MaxFields: 3, Required: true}
		for i, id := range ids {
			req := schema.Req(r.Intn(2) * 2)
			if mask&(1<<i) != 0 {
				req = schema.Required
			}
			s.Fields = append(s.Fields, &schema.Field{ID: id, Req: req, T: gen.FormType(r, c09Kinds[r.Intn(len(c09Kinds))], tc, 1)})
		}
		s.GoOrder = r.Perm(len(ids))
		s.Build()
	} else {
		tc := gen.DefaultTypeCfg()
		tc.BigIDs = r.Chance(1, 5)
		tc.Unknown = r.Chance(1, 4)
		tc.NoCopy = r.Chance(1, 3)
		s = gen.RandomStruct(r, tc, 0)
	}
	v := gen.NewValue(r, s, gen.DefaultValCfg())
	// omit a random subset of fields, at every level
	rate := 1 + r.Intn(4)
	if r.Chance(1, 4) {
		rate = 0
	}
	seed := r.Uint64()
	omitR := gen.New(seed)
	dupRate := 0
	if r.Chance(1, 3) {
		dupRate = 1 + r.Intn(3)
	}
	afterRate := 0
	if r.Chance(1, 3) {
		afterRate = 1 + r.Intn(4)
	}
	retypeRate := r.Intn(3) // some fields arrive with their id but another wire type: not an occurrence
	msg := ref.EncodeWith(s, v.Elem(), &ref.EncodeOpts{Order: r.Perm, Omit: func(_ *schema.Struct, f *schema.Field) bool {
		return rate > 0 && omitR.Intn(10) < rate
	}, Dup: func(_ *schema.Struct, f *schema.Field) bool {
		// a repeated occurrence of one field never stands in for another, missing one
		return dupRate > 0 && f.T.K != schema.Map && omitR.Intn(10) < dupRate
	}, After: func(_ *schema.Struct, f *schema.Field) []byte {
		// the id occurs once more under another wire type, after its proper occurrence: that
		// later occurrence is skipped and takes nothing back
		if afterRate == 0 || omitR.Intn(10) >= afterRate {
			return nil
		}
		for {
			wt := []byte{2, 3, 4, 6, 8, 10, 11, 12, 13, 14, 15}[omitR.Intn(11)]
			if wt != f.T.WT() {
				return gen.AppendRandomValue(omitR, []byte{wt, byte(f.ID >> 8), byte(f.ID)}, wt, 2)
			}
		}
	}, Replace: func(_ *schema.Struct, f *schema.Field) []byte {
		if retypeRate == 0 || omitR.Intn(12) >= retypeRate {
			return nil
		}
		for {
			wt := []byte{2, 3, 4, 6, 8, 10, 11, 12, 13, 14, 15}[omitR.Intn(11)]
			if wt != f.T.WT() {
				b := []byte{wt, byte(f.ID >> 8), byte(f.ID)}
				return gen.AppendRandomValue(omitR, b, wt, 2)
			}
		}
	}})
	poison := r.Bool()
	prime := r.Bool()
	c.Describe("%s poison=%v prime=%v type=%s msg=%s", class, poison, prime, s.Describe(), hexClip(msg))
	c.Hint(structSig(s))
	c.Tag("class:" + class)
	c.Tag(fmt.Sprintf("poison:%v", poison))
	pr := wire.Parse(msg)
	if pr.Verdict == wire.Malformed {
		panic("reference encoder produced a malformed message")
	}
	missing := missingRequired(s, pr.Root)
	nreq := 0
	walkSchema(s, map[*schema.Struct]bool{}, func(st *schema.Struct) {
		for _, f := range st.Fields {
			if f.Req == schema.Required {
				nreq++
			}
		}
	})
	if nreq > 0 {
		c.NonTrivial()
	}
	var present []string
	for _, fn := range pr.Root.Fields {
		present = append(present, fmt.Sprint(fn.ID))
	}
	c.Shape(s.Sig())
	c.Shape(strings.Join(present, ","))
	if len(missing) > 0 {
		c.Tag("expect:error")
	} else {
		c.Tag("expect:ok")
	}
	setPoison(poison)
	defer setPoison(false)
	if prime {
		// a preceding decode of a complete message sets exactly the ids that may be omitted next
		full := ref.Encode(s, v.Elem())
		fDecode(full, reflect.New(s.Go).Interface())
	}
	g, reg := mon.GuardedCopy(msg, false)
	defer reg.Free()
	dst := reflect.New(s.Go)
	dr := fDecode(g, dst.Interface())
	sig := structSig(s)
	if dr.panicked() {
		c.Violation("panic", "C09/panic/"+panicSig(dr), "DecodeObject panicked: %v [%s]", dr.pv, shortStack(dr.stack))
		return
	}
	if len(missing) == 0 {
		if dr.err != nil {
			c.Violation("false-reject", "C09/false-reject/"+sig, "every required field is present but DecodeObject failed: %v", dr.err)
			return
		}
		exp := reflect.New(s.Go)
		if _, _, rerr := ref.Decode(s, msg, exp.Elem()); rerr == nil {
			if d := ref.Diff(s, exp.Elem(), dst.Elem(), ref.CmpOpts{}); d != "" {
				c.Violation("destination", "C09/destination/"+sig, "decoded value differs from the reference decoder's: %s", d)
			}
		}
	} else {
		names := make([]string, 0, len(missing))
		for n := range missing {
			names = append(names, n)
		}
		if dr.err == nil {
			c.Violation("missing-accepted", "C09/missing-accepted/"+sig, "message lacks required field(s) %v but DecodeObject succeeded (n=%d)", names, dr.n)
			return
		}
		var pe *thrift.ProtocolException
		if !errors.As(dr.err, &pe) {
			c.Violation("error-type", "C09/error-type/"+sig, "missing required field(s) %v reported with a non-protocol error: %v", names, dr.err)
			return
		}
		if pe.TypeId() != thrift.INVALID_DATA {
			c.Violation("error-type", "C09/error-typeid/"+sig, "missing required field(s) %v reported with protocol exception type %d: %v", names, pe.TypeId(), dr.err)
			return
		}
		named := false
		for _, n := range names {
			if strings.Contains(dr.err.Error(), fmt.Sprintf("%q", n)) {
				named = true
			}
		}
		if !named {
			c.Violation("error-name", "C09/error-name/"+sig, "error does not name any of the missing fields %v: %v", names, dr.err)
		}
	}
	// encoder: every required field is written, also when zero/nil
	want := ref.Encode(s, v.Elem())
	buf := make([]byte, len(want)+64)
	er := fEncode(buf, v.Interface())
	if er.panicked() || er.err != nil {
		c.Violation("encode-failed", "C09/encode-failed/"+sig, "EncodeObject failed: err=%v panic=%v", er.err, er.pv)
		return
	}
	op := wire.Parse(buf[:er.n])
	if op.Verdict == wire.Malformed {
		c.Violation("encode-malformed", "C09/encode-malformed/"+sig, "encoder output malformed: %s", op.Reason)
		return
	}
	if m := missingRequired(s, op.Root); len(m) > 0 {
		c.Violation("encoder-omits-required", "C09/encoder-omits-required/"+sig, "encoder output lacks required field(s) %v: out=%s", m, hexClip(buf[:er.n]))
	}
	c.Sample(map[string]interface{}{"type": s.Describe(), "msg": hexClip(msg), "missing": fmt.Sprint(missing)})
}

func walkSchema(s *schema.Struct, seen map[*schema.Struct]bool, fn func(*schema.Struct)) {
	if seen[s] {
		return
	}
	seen[s] = true
	fn(s)
	var wt func(t *schema.Type)
	wt = func(t *schema.Type) {
		switch t.K {
		case schema.StructK:
			walkSchema(t.S, seen, fn)
		case schema.List, schema.Set:
			wt(t.Elem)
		case schema.Map:
			wt(t.Key)
			wt(t.Elem)
		}
	}
	for _, f := range s.Fields {
		wt(f.T)
	}
}
