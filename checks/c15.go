package checks

import (
	"errors"
	"fmt"
	"reflect"
	"strings"

	"github.com/cloudwego/frugal"
	"github.com/cloudwego/gopkg/protocol/thrift"

	"verif/gen"
	"verif/harness"
	"verif/wire"
	"verif/zoo"
)

func init() {
	register(&Check{
		ID:   "C15",
		Rule: "case = (nesting shape, reader type, known-prefix length): messages for the recursive zoo type Node are synthesised byte by byte with exactly d nesting levels (levels = nested struct/list/set/map values) for every d in {1..70, 96..1120 step 32, bound-2..bound+2, 2048, 10^4, 10^5, 10^6} (thorough: every d<=2048); shapes: struct->struct, ->list->struct, ->set->struct, ->map value (also with a sibling entry after the nesting one), ->map key, list/map of by-value structs, wide lists (2/40/1022/1500 elements, the last one nesting on), seeded mixtures; readers: Node (known position), NodeOld (skipped, no holder), NodeU (skipped into a holder), unknown field id, a known id sent with another wire type, ReqNode (recursion through a required list with a required field after it), LongName (Node under a 60-character type name: per-level error context grows with it), NodeD (Node with a default initialiser: created structs go through the InitDefault path). Oracle: d<=48 accepted; d>decoder bound (exported by the hook, 1023) rejected with ProtocolException DEPTH_LIMIT; in between only those two outcomes and one threshold per case (monotone); child stack capped at 256 MiB. distinct = distinct (shape, reader, prefix); non-trivial = both an accepted and a rejected depth were observed",
		Plan: func(tier string) []BuildPlan {
			if tier == "thorough" {
				return []BuildPlan{{"plain", c15Cases()}, {"checkptr", c15Cases()}, {"asan", c15Cases() / 3}}
			}
			return []BuildPlan{{"plain", c15Cases()}, {"checkptr", c15Cases() / 3}}
		},
		Run: runC15,
		Assumptions: []string{"depth levels count every nested struct, list, set and map value, the top-level struct being level 1"},
	})
}

var c15Steps = []string{"next", "kids", "kset", "byval", "bykey", "vals", "mval", "kidsW", "valsW", "byval2", "mval2"}
var c15Readers = []string{"Node", "NodeOld", "NodeU", "unknown-id", "ReqNode", "retyped-id", "LongName", "NodeD"}

// c15Width is the element count of the wide list steps ("kidsW", "valsW"): the
// first elements are empty structs, the last one carries the rest of the nest.
// Element count must not influence the depth accounting.
var c15Widths = []int{2, 40, 1022, 1500}
var c15Prefixes = []int{0, 1, 10, 41} // even and odd: the hop on which the budget runs out alternates between value kinds

const c15Mixtures = 6

func c15Cases() int { return (len(c15Steps) + c15Mixtures) * len(c15Readers) * len(c15Prefixes) }

// stepLevels is the number of nesting levels one step adds.
func stepLevels(s string) int {
	if s == "next" {
		return 1
	}
	return 2
}

// deepMessage synthesises a Node message. steps[i] is the step taken at the
// i-th struct; the innermost struct is empty.
func deepMessage(steps []string) []byte { return deepMessageW(steps, 2) }

func deepMessageW(steps []string, width int) []byte {
	var b []byte
	var closers [][]byte
	wide := func(field byte) {
		b = append(b, 0x0f, 0, field, 0x0c, byte(width>>24), byte(width>>16), byte(width>>8), byte(width))
		for i := 0; i < width-1; i++ {
			b = append(b, 0) // empty struct elements before the one that nests on
		}
	}
	for _, s := range steps {
		switch s {
		case "kidsW":
			wide(3)
			closers = append(closers, nil)
		case "valsW":
			wide(7)
			closers = append(closers, nil)
		case "next":
			b = append(b, 0x0c, 0, 2)
			closers = append(closers, nil)
		case "kids":
			b = append(b, 0x0f, 0, 3, 0x0c, 0, 0, 0, 1)
			closers = append(closers, nil)
		case "kset":
			b = append(b, 0x0e, 0, 4, 0x0c, 0, 0, 0, 1)
			closers = append(closers, nil)
		case "byval":
			b = append(b, 0x0d, 0, 5, 0x08, 0x0c, 0, 0, 0, 1, 0, 0, 0, 7)
			closers = append(closers, nil)
		case "bykey":
			b = append(b, 0x0d, 0, 6, 0x0c, 0x03, 0, 0, 0, 1)
			closers = append(closers, []byte{9}) // the i8 value follows the key struct
		case "byval2":
			// two entries: the one that nests on comes first, an empty sibling follows it
			b = append(b, 0x0d, 0, 5, 0x08, 0x0c, 0, 0, 0, 2, 0, 0, 0, 7)
			closers = append(closers, []byte{0, 0, 0, 9, 0})
		case "mval2":
			b = append(b, 0x0d, 0, 8, 0x0b, 0x0c, 0, 0, 0, 2, 0, 0, 0, 1, 'k')
			closers = append(closers, []byte{0, 0, 0, 1, 'z', 0})
		case "vals":
			b = append(b, 0x0f, 0, 7, 0x0c, 0, 0, 0, 1)
			closers = append(closers, nil)
		case "mval":
			b = append(b, 0x0d, 0, 8, 0x0b, 0x0c, 0, 0, 0, 1, 0, 0, 0, 1, 'k')
			closers = append(closers, nil)
		}
	}
	b = append(b, 0) // innermost struct
	for i := len(closers) - 1; i >= 0; i-- {
		b = append(b, closers[i]...)
		b = append(b, 0) // STOP of the struct that held the step
	}
	return b
}

// deepReqMessage synthesises a message for zoo.ReqNode: steps are "next" (field 1)
// or "kids" (the required list, field 2); every struct carries its required
// fields, the ones after the recursive field included.
func deepReqMessage(steps []string) []byte {
	var b []byte
	var closers [][]byte
	emptyKids := []byte{0x0f, 0, 2, 0x0c, 0, 0, 0, 0}
	v := []byte{0x08, 0, 3, 0, 0, 0, 5}
	for _, s := range steps {
		if s == "next" {
			b = append(b, 0x0c, 0, 1)
			closers = append(closers, append(append([]byte{}, emptyKids...), v...))
		} else {
			b = append(b, 0x0f, 0, 2, 0x0c, 0, 0, 0, 1)
			closers = append(closers, v)
		}
	}
	b = append(b, emptyKids...)
	b = append(b, v...)
	b = append(b, 0)
	for i := len(closers) - 1; i >= 0; i-- {
		b = append(b, closers[i]...)
		b = append(b, 0)
	}
	return b
}

// stepsFor builds a step sequence with exactly d levels (top-level struct = 1)
// when possible; it returns the levels actually reached.
func stepsFor(pattern []string, prefix, d int) ([]string, int) {
	levels := 1
	var steps []string
	for i := 0; i < prefix && levels+1 <= d; i++ {
		steps = append(steps, "next")
		levels++
	}
	for i := 0; ; i++ {
		s := pattern[i%len(pattern)]
		if levels+stepLevels(s) > d {
			if levels+1 <= d {
				steps = append(steps, "next")
				levels++
				continue
			}
			break
		}
		steps = append(steps, s)
		levels += stepLevels(s)
	}
	return steps, levels
}

func runC15(c *harness.Ctx, idx int) {
	r := c.Rand(idx)
	np := len(c15Prefixes)
	prefix := c15Prefixes[idx%np]
	reader := c15Readers[(idx/np)%len(c15Readers)]
	pi := idx / np / len(c15Readers)
	var pattern []string
	if pi < len(c15Steps) {
		pattern = []string{c15Steps[pi]}
	} else {
		n := 2 + r.Intn(4)
		for i := 0; i < n; i++ {
			pattern = append(pattern, c15Steps[r.Intn(len(c15Steps))])
		}
	}
	bound, _ := frugal.VerifLimits()
	c.Describe("shape=%s reader=%s known-prefix=%d width=%d decoder-bound=%d", strings.Join(pattern, ">"), reader, prefix, c15Widths[idx%len(c15Widths)], bound)
	c.Hint(reader + "/" + strings.Join(pattern, ">"))
	c.Shape(fmt.Sprint(pattern, reader, prefix))
	c.Tag("reader:" + reader)
	for _, p := range pattern {
		c.Tag("step:" + p)
	}
	var ds []int
	if c.Tier == "thorough" {
		for d := 1; d <= 2048; d++ {
			ds = append(ds, d)
		}
	} else {
		for d := 1; d <= 70; d++ {
			ds = append(ds, d)
		}
		for d := 96; d <= 1120; d += 32 {
			ds = append(ds, d)
		}
		for d := bound - 2; d <= bound+2; d++ {
			ds = append(ds, d)
		}
		ds = append(ds, 2048)
	}
	ds = append(ds, 10000, 100000)
	if prefix == 0 || c.Tier == "thorough" {
		ds = append(ds, 1000000)
	}
	lastOK, firstFail := 0, 0
	accepted, rejected := 0, 0
	width := c15Widths[idx%len(c15Widths)]
	if reader == "ReqNode" {
		// ReqNode only has the struct and the list hop
		for i, p := range pattern {
			if p != "next" {
				pattern[i] = "kids"
			}
		}
	}
	for _, d := range ds {
		steps, levels := stepsFor(pattern, prefix, d)
		if width >= 1000 {
			// keep wide-list messages bounded: only the first 40 wide steps stay wide
			n := 0
			for i, st := range steps {
				if st == "kidsW" || st == "valsW" {
					if n++; n > 40 {
						steps[i] = st[:4]
					}
				}
			}
		}
		msg := deepMessageW(steps, width)
		if reader == "ReqNode" {
			msg = deepReqMessage(steps)
			levels++ // every ReqNode struct carries its (empty) required list: one more level below the innermost struct
		}
		if reader == "unknown-id" {
			// the whole nest hangs under a field id no reader knows
			inner := msg
			msg = append([]byte{0x0c, 0x7f, 0x01}, inner...)
			msg = append(msg, 0)
			levels++
		}
		if reader == "retyped-id" {
			// ... or under an id the reader knows with another wire type (Node.Name, id 9, is a string)
			inner := msg
			msg = append([]byte{0x0c, 0x00, 0x09}, inner...)
			msg = append(msg, 0)
			levels++
		}
		if levels <= 200 {
			if pr := wire.Parse(msg); pr.Verdict != wire.WellFormed || pr.MaxDepth != levels || pr.N != len(msg) {
				panic(fmt.Sprintf("C15 generator: message for d=%d parses as %v depth %d n %d/%d", d, pr.Verdict, pr.MaxDepth, pr.N, len(msg)))
			}
		}
		var dst interface{}
		switch reader {
		case "Node", "unknown-id", "retyped-id":
			dst = &zoo.Node{}
		case "LongName":
			dst = &zoo.NodeWithAnExceptionallyLongGoTypeNameForItsErrorContexts{}
		case "NodeD":
			dst = &zoo.NodeD{}
		case "NodeOld":
			dst = &zoo.NodeOld{}
		case "NodeU":
			dst = &zoo.NodeU{}
		case "ReqNode":
			dst = &zoo.ReqNode{}
		}
		c.Step("d=%d levels=%d len=%d shape=%s reader=%s prefix=%d", d, levels, len(msg), strings.Join(pattern, ">"), reader, prefix)
		dr := fDecode(msg, dst)
		if dr.panicked() {
			c.Violation("panic", "C15/panic/"+panicSig(dr), "DecodeObject panicked at %d levels: %v [%s]", levels, dr.pv, shortStack(dr.stack))
			return
		}
		c.Count("decodes", 1)
		c.Count("_evaluations", 1)
		if dr.err == nil {
			accepted++
			if dr.n != len(msg) {
				c.Violation("n", "C15/n", "accepted %d levels but n=%d of %d", levels, dr.n, len(msg))
			}
			if levels > bound {
				c.Violation("deep-accepted", "C15/deep-accepted/"+reader, "message with %d nesting levels (decoder bound %d) was accepted", levels, bound)
			}
			if firstFail != 0 && levels > firstFail {
				c.Violation("monotone", "C15/not-monotone/"+reader, "%d levels rejected but %d levels accepted (shape %s)", firstFail, levels, strings.Join(pattern, ">"))
			}
			if levels > lastOK {
				lastOK = levels
			}
			continue
		}
		rejected++
		var pe *thrift.ProtocolException
		isDepth := errors.As(dr.err, &pe) && pe.TypeId() == thrift.DEPTH_LIMIT
		if levels <= 48 {
			c.Violation("shallow-rejected", "C15/shallow-rejected/"+reader, "message with %d nesting levels (<=48) rejected: %v", levels, dr.err)
			continue
		}
		if !isDepth {
			c.Violation("error-type", "C15/error-type/"+reader, "message with %d nesting levels rejected with something else than a DEPTH_LIMIT protocol error: %v", levels, dr.err)
		}
		if firstFail == 0 || levels < firstFail {
			firstFail = levels
		}
	}
	c.Count("threshold_last_ok", int64(lastOK))
	if accepted > 0 && rejected > 0 {
		c.NonTrivial()
	}
	c.Tag(fmt.Sprintf("threshold=%d", lastOK))
	c.Sample(map[string]interface{}{"shape": strings.Join(pattern, ">"), "reader": reader, "prefix": prefix, "deepest_accepted_levels": lastOK, "shallowest_rejected_levels": firstFail})
	_ = gen.IDClasses
	_ = reflect.TypeOf
}
