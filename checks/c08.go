package checks

import (
	"bytes"
	"encoding/json"
	"fmt"
	"os"
	"reflect"
	"runtime"
	"strconv"
	"strings"
	"sync"
	"sync/atomic"
	"time"
	"unsafe"

	"github.com/cloudwego/frugal"

	"verif/gen"
	"verif/harness"
	"verif/ref"
	"verif/schema"
	"verif/zoo"
)

func init() {
	register(&Check{
		ID:   "C08",
		Rule: "case = one concurrent episode: 50-85 fresh dynamic types in families that nest one another three levels deep (so that registration runs top-down and bottom-up at once) are used for the very first time by 2-6 goroutines each, released by a barrier with seeded 0-50us staggering, through EncodedSize / EncodeObject / DecodeObject with pointer and by-value arguments, while steady-state goroutines hammer already registered dynamic and static types; 16-48 goroutines, GOMAXPROCS in {2,4,16}; the yield hooks (before the registration lock, between the two descriptor-slot stores, after the prefetch-cache insert, before the slot publication) sleep 0-200us or Gosched under a seeded schedule. Oracles: Go race detector (race build; any DATA RACE block is a violation, de-duplicated by the functions of its stacks), every call's result equals the sequential reference result, no panic, no crash, bounded-wait progress (no completed operation for 120 s with idle CPU = deadlock). Every third case is a fresh sub-process in which the members of the static cyclic families (MutA/B/C, Ring1/2/3, Tree/TreeMeta, PV/VV, Node*, Defs*) are first-used simultaneously by different goroutines. Descriptor-slot collisions (type address & 0xffff) are counted. distinct = distinct (seed, case) episode; non-trivial = at least 20 fresh types were first-used by >=2 goroutines concurrently",
		Plan: func(tier string) []BuildPlan {
			if tier == "thorough" {
				return []BuildPlan{{"race", 400}, {"plain", 800}, {"checkptr", 200}}
			}
			return []BuildPlan{{"race", 36}, {"plain", 48}}
		},
		Run: runC08,
		Assumptions: []string{"schedules are sampled, not enumerated; the race detector reports only pairs of accesses that actually executed"},
	})
}

type c08Item struct {
	s       *schema.Struct
	v       reflect.Value // pointer
	size    int
	canon   []byte // canonical reference bytes
	msg     []byte // message to decode
	decoded []byte // canon of the expected decoded value
	// error path: a message lacking required fields and the names one of which the error must carry
	missMsg   []byte
	missNames []string
	// error path 2: prefixes of msg that the reference decoder rejects (cuts inside known and
	// unknown fields)
	cutMsgs [][]byte
	// errFirst: every goroutine's first call on this (fresh) type is the failing decode, so
	// that the type's first errors are raised simultaneously
	errFirst bool
}

func newC08Item(r *gen.Rand, s *schema.Struct) *c08Item {
	vc := gen.DefaultValCfg()
	vc.Budget = 30
	vc.MaxDepth = 3
	vc.Holder = true // holders carry well-formed unknown fields: decodes retain, encodes re-emit them
	it := &c08Item{s: s, v: gen.NewValue(r, s, vc)}
	want := ref.Encode(s, it.v.Elem())
	it.size = len(want)
	it.canon = mustCanon(want)
	it.msg = ref.EncodeWith(s, it.v.Elem(), &ref.EncodeOpts{Order: r.Perm})
	exp := reflect.New(s.Go)
	if _, info, err := ref.Decode(s, it.msg, exp.Elem()); err != nil || info.DupKey {
		it.msg = nil
	} else {
		it.decoded = ref.Canon(s, exp.Elem(), ref.CmpOpts{})
	}
	if it.msg != nil && len(it.msg) > 2 {
		for k := 0; k < 6 && len(it.cutMsgs) < 3; k++ {
			cut := it.msg[:1+r.Intn(len(it.msg)-1)]
			if _, _, err := ref.Decode(s, cut, reflect.New(s.Go).Elem()); err != nil {
				it.cutMsgs = append(it.cutMsgs, append([]byte(nil), cut...))
			}
		}
	}
	// a message that omits every top-level required field (if the type has any)
	var names []string
	for _, f := range s.Fields {
		if f.Req == schema.Required {
			names = append(names, f.Name)
		}
	}
	if len(names) > 0 {
		it.missNames = names
		it.missMsg = ref.EncodeWith(s, it.v.Elem(), &ref.EncodeOpts{Omit: func(st *schema.Struct, f *schema.Field) bool {
			return st == s && f.Req == schema.Required
		}})
	}
	return it
}

func mustCanon(b []byte) []byte {
	c, err := wireCanon(b)
	if err != nil {
		panic(err)
	}
	return c
}

var (
	c08BucketMu sync.Mutex
	c08Buckets  = map[uintptr]int{}
)

func typeAddr(t reflect.Type) uintptr {
	type iface struct {
		tab  uintptr
		data uintptr
	}
	return (*iface)(unsafe.Pointer(&t)).data
}

// use runs one API call on an item and returns a mismatch description or "".
func (it *c08Item) use(op int) string {
	if op%7 == 5 && len(it.cutMsgs) > 0 {
		// error path 2: a truncated message fails here as it does sequentially
		r := fDecode(it.cutMsgs[op%len(it.cutMsgs)], reflect.New(it.s.Go).Interface())
		if r.panicked() {
			return fmt.Sprintf("DecodeObject of a truncated message panicked: %v [%s]", r.pv, shortStack(r.stack))
		}
		if r.err == nil {
			return "DecodeObject accepted a truncated message the reference decoder rejects"
		}
		return ""
	}
	if op%7 == 6 && it.missMsg != nil {
		// error path: the same protocol error as in a sequential execution
		r := fDecode(it.missMsg, reflect.New(it.s.Go).Interface())
		if r.panicked() {
			return fmt.Sprintf("DecodeObject of a message without its required fields panicked: %v [%s]", r.pv, shortStack(r.stack))
		}
		if r.err == nil {
			return "DecodeObject accepted a message without its required fields"
		}
		named := false
		for _, n := range it.missNames {
			if strings.Contains(r.err.Error(), fmt.Sprintf("%q", n)) {
				named = true
			}
		}
		if !named {
			return fmt.Sprintf("DecodeObject error for missing required fields %v differs from the sequential one: %v", it.missNames, r.err)
		}
		return ""
	}
	switch op % 5 {
	case 0:
		if r := fSize(it.v.Interface()); r.panicked() || r.n != it.size {
			return fmt.Sprintf("EncodedSize(ptr)=%d panic=%v, sequential result %d", r.n, r.pv, it.size)
		}
	case 1:
		if r := fSize(it.v.Elem().Interface()); r.panicked() || r.n != it.size {
			return fmt.Sprintf("EncodedSize(value)=%d panic=%v, sequential result %d", r.n, r.pv, it.size)
		}
	case 2, 3:
		buf := make([]byte, it.size+16)
		var arg interface{} = it.v.Interface()
		if op%5 == 3 {
			arg = it.v.Elem().Interface()
		}
		r := fEncode(buf, arg)
		if r.panicked() || r.err != nil {
			return fmt.Sprintf("EncodeObject failed: err=%v panic=%v [%s]", r.err, r.pv, shortStack(r.stack))
		}
		if c, err := wireCanon(buf[:r.n]); err != nil || !bytes.Equal(c, it.canon) {
			return fmt.Sprintf("EncodeObject bytes differ from the sequential result: %s vs %s", hexClip(buf[:r.n]), hexClip(it.canon))
		}
	case 4:
		if it.msg == nil {
			return ""
		}
		dst := reflect.New(it.s.Go)
		r := fDecode(it.msg, dst.Interface())
		if r.panicked() || r.err != nil {
			return fmt.Sprintf("DecodeObject failed: err=%v panic=%v [%s]", r.err, r.pv, shortStack(r.stack))
		}
		if r.n != len(it.msg) || !bytes.Equal(ref.Canon(it.s, dst.Elem(), ref.CmpOpts{}), it.decoded) {
			return "DecodeObject result differs from the sequential result"
		}
	}
	return ""
}

var c08Steady []*c08Item

func runC08(c *harness.Ctx, idx int) {
	if idx%3 == 2 {
		runC08Cyc(c, idx)
		return
	}
	r := c.Rand(idx)
	procs := []int{2, 4, 16}[idx%3]
	old := runtime.GOMAXPROCS(procs)
	defer runtime.GOMAXPROCS(old)
	nFam := 10 + r.Intn(8)
	c.Describe("episode GOMAXPROCS=%d families=%d", procs, nFam)
	c.Hint(fmt.Sprintf("procs=%d", procs))
	c.Shape(fmt.Sprint(c.Seed, idx))
	c.Tag(fmt.Sprintf("procs:%d", procs))

	// steady-state items: registered before the episode
	if c08Steady == nil {
		sr := gen.New(c.Seed ^ 0x51ead)
		for _, z := range []interface{}{&zoo.Leaf{}, &zoo.Node{}, &zoo.MutA{}, &zoo.Defs2{}, &zoo.UnknownNest{}, &zoo.Wide{}, &zoo.NodeU{}, &zoo.WithUnknown{}} {
			it := newC08Item(sr, gen.Zoo(z))
			for op := 0; op < 5; op++ {
				it.use(op)
			}
			c08Steady = append(c08Steady, it)
		}
	}
	steady := append([]*c08Item(nil), c08Steady...)
	{
		// several values of one type whose maps take the generic (iterator) routines: concurrent
		// encodes of different values must not see each other's entries
		bm := &schema.Struct{UnknownIdx: -1, Fields: []*schema.Field{
			{ID: 1, Req: schema.Default, T: schema.MapOf(schema.Scalar(schema.String), schema.Scalar(schema.Binary))},
			{ID: 2, Req: schema.Default, T: schema.MapOf(schema.Scalar(schema.I64), schema.Scalar(schema.Binary))},
			{ID: 3, Req: schema.Default, T: schema.MapOf(schema.Scalar(schema.Double), schema.Scalar(schema.I32))},
			{ID: 4, Req: schema.Default, T: schema.ListOf(schema.MapOf(schema.Scalar(schema.String), schema.Scalar(schema.Binary)))},
		}}
		bm.Build()
		for i := 0; i < 3; i++ {
			it := newC08Item(r, bm)
			for op := 0; op < 5; op++ {
				it.use(op)
			}
			steady = append(steady, it)
		}
	}
	for i := 0; i < 4; i++ {
		it := newC08Item(r, gen.RandomStruct(r, &gen.TypeCfg{MaxDepth: 2, MaxFields: 5, Unknown: true, Required: true, ZooNest: true}, 0))
		for op := 0; op < 5; op++ {
			it.use(op)
		}
		steady = append(steady, it)
	}

	// fresh families: inner <- mid (x2) <- outer (x2), all unused so far
	var fresh []*c08Item
	tcInner := &gen.TypeCfg{MaxDepth: 1, MaxFields: 4, Unknown: true, Required: true}
	for f := 0; f < nFam; f++ {
		inner := gen.RandomStruct(r, tcInner, 1)
		var mids []*schema.Struct
		for m := 0; m < 2; m++ {
			ms := &schema.Struct{UnknownIdx: -1, Fields: []*schema.Field{
				{ID: 1, Req: schema.Optional, T: schema.StructOf(inner, true)},
				{ID: 2, Req: schema.Default, T: schema.ListOf(schema.StructOf(inner, m == 0))},
				{ID: uint16(3 + r.Intn(50)), Req: schema.Default, T: gen.FormType(r, gen.ValForms[r.Intn(9)], tcInner, 1)},
				{ID: 60, Req: schema.Optional, T: schema.MapOf(schema.Scalar(schema.String), schema.StructOf(inner, m == 1))},
			}}
			ms.Build()
			mids = append(mids, ms)
		}
		var outers []*schema.Struct
		for o := 0; o < 2; o++ {
			os := &schema.Struct{UnknownIdx: -1, Fields: []*schema.Field{
				{ID: 1, Req: schema.Optional, T: schema.StructOf(mids[o], true)},
				{ID: 2, Req: schema.Default, T: schema.MapOf(schema.Scalar(schema.I32), schema.StructOf(mids[1-o], true))},
				{ID: 3, Req: schema.Optional, T: schema.StructOf(inner, true)},
				{ID: 4, Req: schema.Default, T: schema.Scalar(schema.String)},
			}}
			os.Build()
			outers = append(outers, os)
		}
		for _, s := range append(append([]*schema.Struct{inner}, mids...), outers...) {
			fresh = append(fresh, newC08Item(r, s))
		}
	}
	for _, it := range fresh {
		it.errFirst = it.missMsg != nil && r.Bool()
	}
	// invalid definitions whose failure sits behind already linked nested types:
	// their rejection (and its cleanup) runs concurrently with the valid first uses
	var invalid []reflect.Type
	for i := 0; i < 6; i++ {
		ic := &invalidClasses[r.Intn(len(invalidClasses))]
		if ic.lenient {
			continue
		}
		bad, sib1, sib2 := buildInvalid(r, ic, c13Positions[1+r.Intn(len(c13Positions)-1)])
		invalid = append(invalid, bad)
		fresh = append(fresh, newC08Item(r, sib1), newC08Item(r, sib2))
	}
	// descriptor-slot collisions (both T and *T get a slot)
	collisions := 0
	c08BucketMu.Lock()
	for _, it := range fresh {
		for _, a := range []uintptr{typeAddr(it.s.Go), typeAddr(reflect.PtrTo(it.s.Go))} {
			b := a & 0xffff
			if c08Buckets[b] > 0 {
				collisions++
			}
			c08Buckets[b]++
		}
	}
	c08BucketMu.Unlock()
	c.Count("fresh_types", int64(len(fresh)))
	c.Count("slot_collisions", int64(collisions))

	// seeded yield schedule
	var ycount atomic.Uint64
	yseed := r.Uint64()
	hooks := &frugal.VerifHooks{Yield: func(point int) { // no span monitor here: its mutex would serialise decodes
		n := ycount.Add(1)
		z := (n + yseed) * 0x9e3779b97f4a7c15
		z ^= z >> 29
		switch z % 4 {
		case 0:
			time.Sleep(time.Duration(z>>8%200) * time.Microsecond)
		case 1, 2:
			runtime.Gosched()
		}
	}}
	frugal.VerifSetHooks(hooks)
	defer setPoison(false)

	G := 16 + r.Intn(33)
	var mu sync.Mutex
	var mismatches []string
	note := func(format string, a ...interface{}) {
		mu.Lock()
		if len(mismatches) < 10 {
			mismatches = append(mismatches, fmt.Sprintf(format, a...))
		}
		mu.Unlock()
	}
	var completed, progress atomic.Int64 // progress: operations of the first-use goroutines only
	start := make(chan struct{})
	stop := make(chan struct{})
	var first, all sync.WaitGroup
	shared := 0
	// assignment of fresh types to first-use goroutines
	nFirst := G * 2 / 3
	assign := make([][]int, nFirst)
	for ti := range fresh {
		k := 2 + r.Intn(5)
		if k >= 2 {
			shared++
		}
		for j := 0; j < k; j++ {
			g := r.Intn(nFirst)
			assign[g] = append(assign[g], ti)
		}
	}
	for g := 0; g < nFirst; g++ {
		g := g
		gr := r.Split()
		order := gr.Perm(len(assign[g]))
		spin := gr.Intn(50)
		first.Add(1)
		all.Add(1)
		go func() {
			defer all.Done()
			defer first.Done()
			<-start
			for t0 := time.Now(); time.Since(t0) < time.Duration(spin)*time.Microsecond; {
			}
			for _, oi := range order {
				it := fresh[assign[g][oi]]
				op := gr.Intn(7)
				if it.errFirst {
					op = 6
				}
				if m := it.use(op); m != "" {
					note("first use (op %d) of fresh type %s by goroutine %d: %s", op, it.s.Describe(), g, m)
				}
				completed.Add(1)
				progress.Add(1)
				// and again, through another entry point
				if m := it.use(op + 1 + gr.Intn(3)); m != "" {
					note("second use of fresh type %s by goroutine %d: %s", it.s.Describe(), g, m)
				}
				completed.Add(1)
				progress.Add(1)
			}
		}()
	}
	for _, bt := range invalid {
		bt := bt
		gr := r.Split()
		spin := gr.Intn(50)
		first.Add(1)
		all.Add(1)
		go func() {
			defer all.Done()
			defer first.Done()
			<-start
			for t0 := time.Now(); time.Since(t0) < time.Duration(spin)*time.Microsecond; {
			}
			for k := 0; k < 3; k++ {
				e := []string{"encode", "decode", "size"}[gr.Intn(3)]
				if sig, msg := checkRejected(e, bt, false); sig != "" {
					note("invalid definition used concurrently (%s): %s: %s", e, sig, msg)
				}
				completed.Add(1)
				progress.Add(1)
			}
		}()
	}
	for g := nFirst; g < G; g++ {
		gr := r.Split()
		all.Add(1)
		go func() {
			defer all.Done()
			<-start
			for i := 0; ; i++ {
				select {
				case <-stop:
					return
				default:
				}
				it := steady[gr.Intn(len(steady))]
				if m := it.use(gr.Intn(7)); m != "" {
					note("steady-state use of %s: %s", it.s.Name, m)
				}
				completed.Add(1)
			}
		}()
	}
	close(start)
	done := make(chan struct{})
	go func() { first.Wait(); close(done) }()
	// bounded-wait progress monitor
	// (measured on the first-use goroutines: the steady-state ones never touch the
	// registration lock and would mask a leaked lock by completing operations for ever)
	last := progress.Load()
	idle := 0
wait:
	for {
		select {
		case <-done:
			break wait
		case <-time.After(5 * time.Second):
			now := progress.Load()
			if now == last {
				idle++
				c.Step("first-use goroutines made no progress for %d s", idle*5) // (also restarts the per-step CPU budget: the steady-state goroutines keep spinning)
			} else {
				idle = 0
			}
			last = now
			if idle >= 24 {
				buf := make([]byte, 1<<20)
				buf = buf[:runtime.Stack(buf, true)]
				c.Violation("no-progress", "C08/no-progress", "no first-use operation completed for 120 s with %d goroutines in the episode (deadlock?)\n%s", G, clipStr(string(buf), 4000))
				c.Abort()
				break wait
			}
		}
	}
	close(stop)
	if c.Aborted() {
		return // the process is beyond repair: any further call into the library may block for ever
	}
	waited := make(chan struct{})
	go func() { all.Wait(); close(waited) }()
	select {
	case <-waited:
	case <-time.After(60 * time.Second):
		c.Inconclusive("goroutines did not stop within 60 s after the episode")
	}
	c.Count("operations", completed.Load())
	c.Count("_evaluations", completed.Load())
	c.Count("yield_calls", int64(ycount.Load()))
	if shared >= 20 {
		c.NonTrivial()
	}
	for _, m := range mismatches {
		c.Violation("result", "C08/wrong-result/"+firstWordsOf(m), "%s", m)
	}
	// after the dust settles every fresh type still works
	for _, it := range fresh {
		for op := 0; op < 5; op++ {
			if m := it.use(op); m != "" {
				c.Violation("result-after", "C08/wrong-result-after-episode", "after the episode, type %s: %s", it.s.Describe(), m)
				return
			}
		}
	}
	c.Sample(map[string]interface{}{"goroutines": G, "gomaxprocs": procs, "fresh_types": len(fresh), "operations": completed.Load(), "yield_calls": ycount.Load(), "slot_collisions": collisions})
}

func clipStr(s string, n int) string {
	if len(s) > n {
		return s[:n] + "…"
	}
	return s
}

func firstWordsOf(m string) string {
	switch {
	case bytesContains(m, "panic"):
		return "panic"
	case bytesContains(m, "EncodedSize"):
		return "size"
	case bytesContains(m, "EncodeObject"):
		return "encode"
	case bytesContains(m, "DecodeObject"):
		return "decode"
	}
	return "other"
}

func bytesContains(s, sub string) bool { return bytes.Contains([]byte(s), []byte(sub)) }

// ---------------------------------------------------------------------------
// cyclic static families: their very first use happens once per process, so
// these episodes run in fresh sub-processes (spec "c08cyc|seed|idx").

var c08Families = [][]interface{}{
	{&zoo.MutA{}, &zoo.MutB{}, &zoo.MutC{}},
	{&zoo.Ring1{}, &zoo.Ring2{}, &zoo.Ring3{}},
	{&zoo.Tree{}, &zoo.TreeMeta{}},
	{&zoo.PV{}, &zoo.VV{}},
	{&zoo.Node{}, &zoo.NodeU{}, &zoo.NodeOld{}},
	{&zoo.Defs2{}, &zoo.Defs{}, &zoo.UnknownNest{}, &zoo.WithUnknown{}},
}

type c08CycResult struct {
	Violations []string `json:"violations"`
	Ops        int      `json:"ops"`
	Yields     uint64   `json:"yields"`
}

func runC08Cyc(c *harness.Ctx, idx int) {
	c.Describe("cyclic-family first-use episode in a fresh process (replay: vworker -sub 'c08cyc|%d|%d')", c.Seed, idx)
	c.Hint("cyclic")
	c.Tag("episode:cyclic-families-subprocess")
	c.Shape(fmt.Sprint("cyc", c.Seed, idx))
	c.NonTrivial()
	outB, errB, err, hung := runSub(fmt.Sprintf("c08cyc|%d|%d", c.Seed, idx), nil, 10*time.Minute)
	if hung {
		c.Violation("no-progress", "C08/cyclic-no-progress", "fresh-process episode made no progress for 10 minutes (deadlock?): %s", clipStr(string(errB), 3000))
		c.Abort()
		return
	}
	out, errb := bytes.NewBuffer(outB), bytes.NewBuffer(errB)
	var res c08CycResult
	if jerr := json.Unmarshal(out.Bytes(), &res); err != nil || jerr != nil {
		es := errb.String()
		class := "died"
		for _, p := range []string{"DATA RACE", "concurrent map", "checkptr", "unexpected fault address", "SIGSEGV", "nil pointer", "panic:"} {
			if strings.Contains(es, p) {
				class = strings.ReplaceAll(p, " ", "-")
				break
			}
		}
		c.Violation("child-died", "C08/cyclic-child-died/"+class, "fresh-process episode died (%v): %s", err, clipStr(es, 2500))
		return
	}
	for _, v := range res.Violations {
		if strings.HasPrefix(v, "no-progress") {
			c.Abort()
		}
		c.Violation("result", "C08/cyclic/"+firstWordsOf(v), "%s", v)
	}
	c.Count("operations", int64(res.Ops))
	c.Count("_evaluations", int64(res.Ops))
	c.Count("yield_calls", int64(res.Yields))
	c.Sample(map[string]interface{}{"episode": "cyclic families, fresh process", "ops": res.Ops, "yields": res.Yields})
}

// RunSubC08Cyc: every family's members are first-used at the same time by
// different goroutines (each member by two goroutines, different entry points).
func RunSubC08Cyc(spec string) {
	parts := strings.Split(spec, "|")
	seed, _ := strconv.ParseUint(parts[1], 10, 64)
	idx, _ := strconv.Atoi(parts[2])
	r := gen.For(seed, "C08cyc", idx)
	res := &c08CycResult{}
	var ycount atomic.Uint64
	yseed := r.Uint64()
	frugal.VerifSetHooks(&frugal.VerifHooks{Yield: func(point int) {
		n := ycount.Add(1)
		z := (n + yseed) * 0x9e3779b97f4a7c15
		z ^= z >> 29
		switch z % 3 {
		case 0:
			time.Sleep(time.Duration(z>>8%400) * time.Microsecond)
		case 1:
			runtime.Gosched()
		}
	}})
	var mu sync.Mutex
	note := func(format string, a ...interface{}) {
		mu.Lock()
		if len(res.Violations) < 10 {
			res.Violations = append(res.Violations, fmt.Sprintf(format, a...))
		}
		mu.Unlock()
	}
	var ops atomic.Int64
	hung := false
	for _, fi := range r.Perm(len(c08Families)) {
		fam := c08Families[fi]
		var items []*c08Item
		for _, z := range fam {
			vc := gen.DefaultValCfg()
			vc.MaxDepth = 4
			vc.Budget = 40
			s := gen.Zoo(z)
			it := &c08Item{s: s, v: gen.NewValue(r, s, vc)}
			want := ref.Encode(s, it.v.Elem())
			it.size = len(want)
			it.canon = mustCanon(want)
			it.msg = want
			exp := reflect.New(s.Go)
			if _, info, err := ref.Decode(s, it.msg, exp.Elem()); err != nil || info.DupKey {
				it.msg = nil
			} else {
				it.decoded = ref.Canon(s, exp.Elem(), ref.CmpOpts{})
			}
			items = append(items, it)
		}
		start := make(chan struct{})
		var wg sync.WaitGroup
		for gi := 0; gi < 3*len(items); gi++ {
			it := items[gi%len(items)]
			op := r.Intn(5)
			spin := r.Intn(200)
			wg.Add(1)
			go func() {
				defer wg.Done()
				<-start
				for t0 := time.Now(); time.Since(t0) < time.Duration(spin)*time.Microsecond; {
				}
				for k := 0; k < 3; k++ {
					if m := it.use(op + k); m != "" {
						note("concurrent first use of %s (family %d, op %d): %s", it.s.Name, fi, (op+k)%5, m)
					}
					ops.Add(1)
				}
			}()
		}
		close(start)
		done := make(chan struct{})
		go func() { wg.Wait(); close(done) }()
		select {
		case <-done:
		case <-time.After(120 * time.Second):
			buf := make([]byte, 1<<18)
			note("no-progress: goroutines still blocked after 120 s\n%s", buf[:runtime.Stack(buf, true)])
			hung = true
		}
		if hung {
			break // the registration lock is gone for good: the other families would only wait as well
		}
	}
	res.Ops = int(ops.Load())
	res.Yields = ycount.Load()
	json.NewEncoder(os.Stdout).Encode(res)
}
