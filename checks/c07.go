package checks

import (
	"bytes"
	"encoding/json"
	"errors"
	"fmt"
	"os"
	"reflect"
	"runtime"
	"strconv"
	"strings"
	"time"

	"github.com/cloudwego/gopkg/protocol/thrift"

	"verif/gen"
	"verif/harness"
	"verif/mon"
	"verif/ref"
	"verif/schema"
	"verif/zoo"
)

func init() {
	register(&Check{
		ID:   "C07",
		Rule: "case = one call sequence of 60-200 API calls executed in a FRESH child process over a pool of ~25 types: dynamic types that share and nest one another (first used alone or first met nested, outer-first or inner-first), static zoo types (recursive, mutually recursive, defaults, holders), invalid dynamic definitions and the static invalid-behind-a-cycle families. Ops: EncodedSize / EncodeObject with pointer and by-value arguments, short buffers, decodes into destinations that persist across calls, decodes failing midway (truncation inside lists/maps/nested structs, corrupted counts, missing required fields), decodes of messages omitting fields that earlier messages set (by-value struct map values), rejected types between any two of them. Every call's result (size, canonical bytes, destination given its prior contents, error-ness / INVALID_DATA) is compared with the stateless reference model; half of the processes run with the pool sanitizer poisoning every recycled object. distinct = distinct (seed, case) sequence; non-trivial = the sequence contains at least one failing decode followed by a successful one on the same type",
		Plan: func(tier string) []BuildPlan {
			if tier == "thorough" {
				return []BuildPlan{{"plain", 8000}, {"checkptr", 2000}, {"race", 300}}
			}
			return []BuildPlan{{"plain", 320}, {"checkptr", 96}}
		},
		Run: runC07,
		Assumptions: []string{"the reference model is the definition of 'the same call made first in a fresh process'; it is itself validated against fresh first calls by C01-C05, C09-C13"},
	})
}

type c07Result struct {
	Violations []string       `json:"violations"`
	Ops        int            `json:"ops"`
	OpCounts   map[string]int `json:"op_counts"`
	FailThenOK int            `json:"fail_then_ok"`
}

func runC07(c *harness.Ctx, idx int) {
	poison := idx%2 == 1
	c.Describe("sequence seed=%d idx=%d poison=%v (replay: vworker -sub 'c07|%d|%d|%v')", c.Seed, idx, poison, c.Seed, idx, poison)
	c.Hint(fmt.Sprintf("poison=%v", poison))
	c.Shape(fmt.Sprint(c.Seed, idx))
	c.Tag(fmt.Sprintf("poison:%v", poison))
	outB, errB, err, hung := runSub(fmt.Sprintf("c07|%d|%d|%v", c.Seed, idx, poison), nil, 10*time.Minute)
	if hung && subStalled(errB) {
		c.Violation("no-progress", "C07/child-blocked", "the sequence process blocked (no CPU time consumed for 150 s): %s", clipStr(string(errB), 3000))
		c.Abort()
		return
	}
	if hung {
		c.Inconclusive("sequence process exceeded the 10 min wall-clock limit: %s", clipStr(string(errB), 1500))
		return
	}
	out, errb := bytes.NewBuffer(outB), bytes.NewBuffer(errB)
	var res c07Result
	if jerr := json.Unmarshal(out.Bytes(), &res); err != nil || jerr != nil {
		es := errb.String()
		class := "died"
		for _, p := range []string{"checkptr", "out of memory", "unexpected fault address", "SIGSEGV", "stack overflow", "panic:"} {
			if strings.Contains(es, p) {
				class = strings.ReplaceAll(p, " ", "-")
				break
			}
		}
		if len(es) > 2500 {
			es = es[:2500]
		}
		c.Violation("child-died", "C07/child-died/"+class, "sequence process died (%v): %s", err, es)
		return
	}
	for _, v := range res.Violations {
		c.Violation("history", "C07/"+firstField(v), "%s", v)
	}
	for k, n := range res.OpCounts {
		c.Count("op_"+k, int64(n))
	}
	c.Count("ops", int64(res.Ops))
	c.Count("_evaluations", int64(res.Ops))
	if res.FailThenOK > 0 {
		c.NonTrivial()
	}
	c.Sample(map[string]interface{}{"ops": res.Ops, "op_counts": res.OpCounts, "poison": poison})
}

type c07Type struct {
	name  string
	s     *schema.Struct // nil for invalid definitions
	bad   reflect.Type
	dstF  reflect.Value // destination decoded into by frugal across calls
	dstR  reflect.Value // the reference model's copy
	fresh bool          // destinations need (re)creation
	ptrOnly bool        // invalid argument kind: only passed as reflect.New(bad)
	failedBefore bool
}

// RunSubC07 runs one sequence: spec = "c07|seed|idx|poison".
func RunSubC07(spec string) {
	parts := strings.Split(spec, "|")
	seed, _ := strconv.ParseUint(parts[1], 10, 64)
	idx, _ := strconv.Atoi(parts[2])
	poison := parts[3] == "true"
	r := gen.For(seed, "C07seq", idx)
	res := &c07Result{OpCounts: map[string]int{}}
	setPoison(poison)

	// ---- the pool
	tc := &gen.TypeCfg{MaxDepth: 2, MaxFields: 5, Unknown: true, Required: true, ZooNest: true}
	var pool []*c07Type
	var inners []*schema.Struct
	for i := 0; i < 3; i++ {
		inners = append(inners, gen.RandomStruct(r, &gen.TypeCfg{MaxDepth: 1, MaxFields: 4, Unknown: true, Required: true}, 1))
	}
	for i := 0; i < 7; i++ {
		s := gen.RandomStruct(r, tc, 0)
		// graft shared inner structs at pointer / by-value / list / map-value positions
		in := inners[r.Intn(len(inners))]
		forms := []*schema.Type{
			schema.StructOf(in, true), schema.StructOf(in, false), schema.ListOf(schema.StructOf(in, true)),
			schema.MapOf(schema.Scalar(schema.I32), schema.StructOf(in, false)), schema.MapOf(schema.Scalar(schema.String), schema.StructOf(in, true)),
		}
		g := &schema.Struct{UnknownIdx: -1, HasUnknown: s.HasUnknown}
		for _, f := range s.Fields {
			g.Fields = append(g.Fields, &schema.Field{ID: f.ID, Req: f.Req, T: f.T})
		}
		used := map[uint16]bool{}
		for _, f := range g.Fields {
			used[f.ID] = true
		}
		for k := 0; k < 2; k++ {
			id := uint16(100 + r.Intn(100))
			if used[id] {
				continue
			}
			used[id] = true
			g.Fields = append(g.Fields, &schema.Field{ID: id, Req: schema.Req(r.Intn(3)), T: forms[r.Intn(len(forms))]})
		}
		g.Build()
		pool = append(pool, &c07Type{name: fmt.Sprintf("dyn%d", i), s: g, fresh: true})
	}
	for i := 0; i < 2; i++ {
		// outer types nesting pool types: outer-first vs inner-first first use is decided by the sequence
		a, b := pool[r.Intn(7)].s, pool[r.Intn(7)].s
		o := &schema.Struct{UnknownIdx: -1, Fields: []*schema.Field{
			{ID: 1, Req: schema.Optional, T: schema.StructOf(a, true)},
			{ID: 2, Req: schema.Default, T: schema.ListOf(schema.StructOf(b, true))},
			{ID: 3, Req: schema.Default, T: schema.MapOf(schema.Scalar(schema.I16), schema.StructOf(a, false))},
			{ID: 4, Req: schema.Required, T: schema.Scalar(schema.I64)},
		}}
		o.Build()
		pool = append(pool, &c07Type{name: fmt.Sprintf("outer%d", i), s: o, fresh: true})
	}
	for _, z := range []interface{}{&zoo.Leaf{}, &zoo.LeafReq{}, &zoo.Node{}, &zoo.MutA{}, &zoo.MutB{}, &zoo.MutC{}, &zoo.Defs2{}, &zoo.UnknownNest{}, &zoo.WithUnknown{}, &zoo.Wide{}} {
		s := gen.Zoo(z)
		pool = append(pool, &c07Type{name: "zoo." + s.Name, s: s, fresh: true})
	}
	for i := 0; i < 3; i++ {
		ic := &invalidClasses[r.Intn(len(invalidClasses))]
		if ic.lenient {
			continue
		}
		bad, sib1, sib2 := buildInvalid(r, ic, c13Positions[r.Intn(len(c13Positions))])
		pool = append(pool, &c07Type{name: "invalid:" + ic.name, bad: bad})
		// valid types sharing nested struct types with the invalid definition
		pool = append(pool, &c07Type{name: "sibling-byvalue:" + ic.name, s: sib1, fresh: true}, &c07Type{name: "sibling-ptr:" + ic.name, s: sib2, fresh: true})
	}
	// arguments that are not (pointers to) structs although their element type is a pool type
	// used through pointers all the time: **T must be refused whatever T's history is
	for i := 0; i < 3; i++ {
		t := pool[r.Intn(len(pool))]
		if t.s != nil {
			pool = append(pool, &c07Type{name: "invalid-arg:**" + t.name, bad: reflect.PtrTo(t.s.Go), ptrOnly: true})
		}
	}
	for _, b := range []interface{}{zoo.BadTop{}, zoo.BadTop2{}, zoo.BadB{}, zoo.BadTop3{}, zoo.BadD{}} {
		pool = append(pool, &c07Type{name: fmt.Sprintf("invalid:%T", b), bad: reflect.TypeOf(b)})
	}

	viol := func(class, format string, a ...interface{}) {
		if len(res.Violations) < 20 {
			res.Violations = append(res.Violations, class+": "+fmt.Sprintf(format, a...))
		}
	}
	vc := gen.DefaultValCfg()
	vc.Budget = 50
	vc.MaxDepth = 3
	nops := 60 + r.Intn(141)
	for k := 0; k < nops; k++ {
		t := pool[r.Intn(len(pool))]
		res.Ops++
		if t.s == nil {
			e := []string{"encode", "decode", "size"}[r.Intn(3)]
			res.OpCounts["invalid-"+e]++
			if sig, msg := checkRejected(e, t.bad, r.Bool() && e != "decode" && !t.ptrOnly); sig != "" {
				viol("invalid/"+sig, "op %d on %s: %s", k, t.name, msg)
			}
			continue
		}
		s := t.s
		op := r.Intn(10)
		switch {
		case op < 2: // sizes
			res.OpCounts["size"]++
			v := gen.NewValue(r, s, vc)
			want := len(ref.Encode(s, v.Elem()))
			var arg interface{} = v.Interface()
			if op == 1 {
				arg = v.Elem().Interface()
			}
			if sz := fSize(arg); sz.panicked() || sz.n != want {
				viol("size", "op %d EncodedSize(%s, byvalue=%v) = %d (panic %v), reference %d; type %s", k, t.name, op == 1, sz.n, sz.pv, want, s.Describe())
			}
		case op < 4: // encodes
			res.OpCounts["encode"]++
			v := gen.NewValue(r, s, vc)
			want := ref.Encode(s, v.Elem())
			var arg interface{} = v.Interface()
			if op == 3 {
				arg = v.Elem().Interface()
			}
			buf := make([]byte, len(want)+r.Intn(40))
			er := fEncode(buf, arg)
			if er.panicked() || er.err != nil || !sameUpToMapOrder(buf[:er.n], want) {
				viol("encode", "op %d EncodeObject(%s, byvalue=%v): n=%d err=%v panic=%v out=%s reference=%s; type %s", k, t.name, op == 3, er.n, er.err, er.pv, hexClip(buf[:er.n]), hexClip(want), s.Describe())
			}
		case op == 4: // short buffer
			res.OpCounts["encode-short"]++
			v := gen.NewValue(r, s, vc)
			want := ref.Encode(s, v.Elem())
			if len(want) < 2 {
				continue
			}
			buf := make([]byte, r.Intn(len(want)))
			if er := fEncode(buf, v.Interface()); er.panicked() || er.err == nil {
				viol("encode-short", "op %d EncodeObject(%s) into %d bytes (needs %d): err=%v panic=%v", k, t.name, len(buf), len(want), er.err, er.pv)
			}
		default: // decodes
			if t.fresh {
				t.dstR, t.dstF = prefillPair(r, s)
				t.fresh = false
			}
			v := gen.NewValue(r, s, vc)
			rate := r.Intn(4)
			msg := ref.EncodeWith(s, v.Elem(), &ref.EncodeOpts{Order: r.Perm, Omit: func(_ *schema.Struct, f *schema.Field) bool {
				return f.Req != schema.Required && r.Intn(10) < rate
			}})
			kind := "decode-ok"
			switch r.Intn(6) {
			case 0:
				kind = "decode-truncated"
				if len(msg) > 2 {
					msg = msg[:1+r.Intn(len(msg)-1)]
				}
			case 1:
				kind = "decode-missing-required"
				msg = ref.EncodeWith(s, v.Elem(), &ref.EncodeOpts{Omit: func(_ *schema.Struct, f *schema.Field) bool {
					return f.Req == schema.Required && r.Intn(3) == 0
				}})
			case 2:
				kind = "decode-corrupt"
				if len(msg) > 4 {
					msg = append([]byte(nil), msg...)
					msg[r.Intn(len(msg))] ^= byte(1 << r.Intn(8))
				}
			}
			res.OpCounts[kind]++
			// the reference works on a scratch copy so that a failure leaves dstR intact for comparison
			rn, info, rerr := ref.Decode(s, msg, t.dstR.Elem())
			dr := fDecode(msg, t.dstF.Interface())
			if dr.panicked() {
				viol("decode-panic", "op %d DecodeObject(%s) panicked: %v [%s] msg=%s", k, t.name, dr.pv, shortStack(dr.stack), hexClip(msg))
				t.fresh = true
				continue
			}
			lenient := info.Lenient || info.MaxLevel > 48
			if rerr != nil {
				if dr.err == nil && !lenient {
					viol("decode-accepts", "op %d (%s) DecodeObject(%s) succeeded, reference rejects (%v at %d) msg=%s type=%s", k, kind, t.name, rerr.Class, rerr.Off, hexClip(msg), s.Describe())
				}
				if rerr.Class == ref.RequiredMissing && dr.err != nil {
					var pe *thrift.ProtocolException
					if !errors.As(dr.err, &pe) || pe.TypeId() != thrift.INVALID_DATA {
						viol("decode-error-type", "op %d DecodeObject(%s): missing required field reported as %v", k, t.name, dr.err)
					}
				}
				// contents after a failed decode are unspecified - but they are the destination's
				// prior contents of the next call: either start afresh, or keep what frugal left
				// and hand the reference model a deep copy taken right now (what the failed call
				// stored must not be touched by anybody's later calls)
				if dr.err != nil && r.Bool() {
					t.dstR = mon.DeepClone(t.dstF.Elem()).Addr()
					res.OpCounts["kept-partial-destination"]++
				} else {
					t.fresh = true
				}
				t.failedBefore = true
				continue
			}
			if dr.err != nil {
				if !lenient {
					viol("decode-rejects", "op %d (%s) DecodeObject(%s) failed: %v; the reference accepts. msg=%s type=%s", k, kind, t.name, dr.err, hexClip(msg), s.Describe())
				}
				t.fresh = true
				continue
			}
			if info.DupKey || info.DupField {
				t.fresh = true
				continue
			}
			if t.failedBefore {
				res.FailThenOK++
				t.failedBefore = false
			}
			if dr.n != rn {
				viol("decode-n", "op %d DecodeObject(%s) n=%d, reference %d", k, t.name, dr.n, rn)
			}
			if d := ref.Diff(s, t.dstR.Elem(), t.dstF.Elem(), ref.CmpOpts{}); d != "" {
				viol("decode-value", "op %d (%s) DecodeObject(%s): destination differs from the stateless reference: %s; msg=%s type=%s", k, kind, t.name, d, hexClip(msg), s.Describe())
				t.fresh = true
			}
		}
	}
	runtime.KeepAlive(pool)
	json.NewEncoder(os.Stdout).Encode(res)
}
