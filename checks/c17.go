package checks

import (
	"bytes"
	"crypto/sha256"
	"encoding/json"
	"fmt"
	"os"
	"reflect"
	"strconv"
	"strings"
	"sync"
	"time"

	"github.com/cloudwego/frugal"
	"github.com/cloudwego/frugal/debug"
	"verif/schema"

	"verif/gen"
	"verif/harness"
	"verif/ref"
	"verif/wire"
	"verif/zoo"
)

func init() {
	register(&Check{
		ID:   "C17",
		Rule: "case = one configuration: (FRUGAL_MAX_INLINE_DEPTH in {unset,2,3,10,0x10,1000000}) x (FRUGAL_MAX_INLINE_IL_SIZE in {unset,257,50000,2^40}) x placement of the legacy calls (none, before first use, midway, before every item, from a concurrent goroutine) - NoJIT, Pretouch with every option constructor on accepted, rejected and non-struct types, SetMaxInline*, debug.GetStats. Each configuration runs in a fresh child process over a slice of the C01 corpus (plus probes of rejected types) and returns a SHA-256 digest of sizes, canonical encoded bytes, canonical decoded values, error classes and accept/reject of deep-nesting probes (48..20000 levels); oracle: digest equals the default configuration's digest, every item equals the reference model (C01-C04 oracles) inside the child, Pretouch returned nil every time, setters returned their argument. distinct = distinct configuration; non-trivial = the configuration differs from the default one",
		Plan: func(tier string) []BuildPlan {
			n := len(c17Depth) * len(c17Size) * len(c17Place)
			if tier == "thorough" {
				return []BuildPlan{{"plain", n * 3}}
			}
			return []BuildPlan{{"plain", n}}
		},
		Run: runC17,
		Assumptions: []string{"environment values are 'valid' in the sense of the library's own parser rule: depth > 1, IL size > 256, base-0 integer syntax"},
	})
}

var c17Depth = []string{"", "2", "3", "10", "0x10", "1000000"}
var c17Size = []string{"", "257", "50000", "1099511627776"}
var c17Place = []string{"none", "pre", "mid", "each", "goroutine"}

type c17Result struct {
	Digest        string `json:"digest"`
	Items         int    `json:"items"`
	RefMismatch   int    `json:"ref_mismatch"`
	FirstMismatch string `json:"first_mismatch"`
	PretouchErr   int    `json:"pretouch_err"`
	SetterBad     int    `json:"setter_bad"`
	LegacyCalls   int    `json:"legacy_calls"`
}

func c17Items(tier string) int {
	if tier == "thorough" {
		return 2500
	}
	return 350
}

func runSubC17(seed uint64, items int, place, depth, size string) (*c17Result, error) {
	env := []string{}
	for _, e := range os.Environ() {
		if !strings.HasPrefix(e, "FRUGAL_MAX_INLINE") {
			env = append(env, e)
		}
	}
	if depth != "" {
		env = append(env, "FRUGAL_MAX_INLINE_DEPTH="+depth)
	}
	if size != "" {
		env = append(env, "FRUGAL_MAX_INLINE_IL_SIZE="+size)
	}
	outB, errB, err, hung := runSub(fmt.Sprintf("c17|%d|%d|%s", seed, items, place), env, 10*time.Minute)
	if hung && subStalled(errB) {
		return nil, fmt.Errorf("child blocked (no CPU time consumed for 150 s): %s", clipStr(string(errB), 2500))
	}
	if hung {
		return nil, errC17Slow
	}
	out := bytes.NewBuffer(outB)
	if err != nil {
		es := string(errB)
		if len(es) > 1200 {
			es = es[:1200]
		}
		return nil, fmt.Errorf("%v: %s", err, es)
	}
	var r c17Result
	if err := json.Unmarshal(out.Bytes(), &r); err != nil {
		return nil, fmt.Errorf("bad result: %v: %s", err, out.String())
	}
	return &r, nil
}

// errC17Slow: the child was still computing at the wall-clock limit; not a verdict.
var errC17Slow = fmt.Errorf("child exceeded the 10 min wall-clock limit while still running")

var (
	c17DefaultOnce sync.Once
	c17Default     *c17Result
	c17DefaultErr  error
)

func runC17(c *harness.Ctx, idx int) {
	n := len(c17Depth) * len(c17Size) * len(c17Place)
	round := idx / n
	i := idx % n
	place := c17Place[i%len(c17Place)]
	i /= len(c17Place)
	size := c17Size[i%len(c17Size)]
	depth := c17Depth[i/len(c17Size)]
	items := c17Items(c.Tier)
	seed := c.Seed + uint64(round)*1000003
	c.Describe("config depth=%q il_size=%q placement=%s items=%d corpus-seed=%d", depth, size, place, items, seed)
	c.Hint(fmt.Sprintf("depth=%s/size=%s/%s", depth, size, place))
	c.Shape(fmt.Sprint(depth, "|", size, "|", place, "|", round))
	c.Tag("place:" + place)
	if depth != "" || size != "" || place != "none" {
		c.NonTrivial()
	}
	if round == 0 {
		c17DefaultOnce.Do(func() { c17Default, c17DefaultErr = runSubC17(seed, items, "none", "", "") })
	}
	def, derr := c17Default, c17DefaultErr
	if round != 0 {
		def, derr = runSubC17(seed, items, "none", "", "")
	}
	if derr == errC17Slow {
		c.Inconclusive("child with the default configuration: %v", derr)
		return
	}
	if derr != nil {
		c.Violation("default-died", "C17/default-config-died", "child with the default configuration failed: %v", derr)
		return
	}
	res, err := runSubC17(seed, items, place, depth, size)
	if err == errC17Slow {
		c.Inconclusive("child under depth=%q size=%q placement=%s: %v", depth, size, place, err)
		return
	}
	if err != nil && strings.HasPrefix(err.Error(), "child blocked") {
		c.Abort() // the other configurations of this shard would block the same way, 150 s each
	}
	if err != nil {
		c.Violation("child-died", "C17/child-died/"+place, "child failed under depth=%q size=%q placement=%s: %v", depth, size, place, err)
		return
	}
	c.Count("items", int64(res.Items))
	c.Count("_evaluations", int64(res.Items))
	c.Count("legacy_calls", int64(res.LegacyCalls))
	if res.Digest != def.Digest {
		c.Violation("digest", "C17/digest-differs/"+place, "results differ from the default configuration under depth=%q size=%q placement=%s (digest %s vs %s)", depth, size, place, res.Digest[:16], def.Digest[:16])
	}
	if res.RefMismatch > 0 {
		c.Violation("ref", "C17/ref-mismatch/"+place, "%d items differ from the reference model under depth=%q size=%q placement=%s; first: %s", res.RefMismatch, depth, size, place, res.FirstMismatch)
	}
	if res.PretouchErr > 0 {
		c.Violation("pretouch", "C17/pretouch-error", "Pretouch returned an error %d times", res.PretouchErr)
	}
	if res.SetterBad > 0 {
		c.Violation("setter", "C17/setter", "a SetMaxInline* setter did not return its argument (%d times)", res.SetterBad)
	}
	c.Sample(map[string]interface{}{"depth": depth, "il_size": size, "placement": place, "digest": res.Digest[:16], "items": res.Items, "legacy_calls": res.LegacyCalls})
}

// legacyCalls exercises every JIT-era control once.
func legacyCalls(r *gen.Rand, res *c17Result) {
	res.LegacyCalls++
	frugal.NoJIT(r.Bool())
	n := 1 + r.Intn(100000)
	if frugal.SetMaxInlineDepth(n) != n {
		res.SetterBad++
	}
	if frugal.SetMaxInlineILSize(n*3) != n*3 {
		res.SetterBad++
	}
	_ = debug.GetStats()
	opts := []frugal.Option{frugal.WithMaxInlineDepth(r.Intn(10)), frugal.WithMaxInlineILSize(r.Intn(100000)), frugal.WithMaxPretouchDepth(r.Intn(5))}
	targets := []interface{}{
		reflect.TypeOf(zoo.Leaf{}), reflect.TypeOf(&zoo.Node{}), reflect.TypeOf(zoo.Defs2{}), &zoo.MutA{}, zoo.Wide{},
		reflect.TypeOf(zoo.BadTop{}), reflect.TypeOf(zoo.Bad{}), &zoo.BadTop3{}, // rejected definitions
		reflect.TypeOf(0), reflect.TypeOf(""), 5, "x", nil, reflect.TypeOf([]int{}), // not structs
		c17PtrPtr(), reflect.TypeOf(c17PtrPtr()), new(int), []zoo.Leaf{{}}, map[string]*zoo.Leaf{}, &[]*zoo.Leaf{}, reflect.TypeOf(&[]*zoo.Leaf{}), // arguments the codec rejects
	}
	targets = append(targets, &zoo.ReqNode{}, reflect.TypeOf(zoo.LeafReq{})) // required fields on several nesting levels
	for _, t := range targets {
		if err := frugal.Pretouch(t, opts[:r.Intn(len(opts)+1)]...); err != nil {
			res.PretouchErr++
		}
	}
	// right after the legacy calls: a message whose outer struct lacks a required field that
	// its nested struct (same field ids) carries is still refused, a complete one accepted
	nested := []byte{0x0f, 0, 2, 0x0c, 0, 0, 0, 0, 0x08, 0, 3, 0, 0, 0, 5, 0} // {2: [], 3: 5}
	incomplete := append(append([]byte{0x0c, 0, 1}, nested...), 0x0f, 0, 2, 0x0c, 0, 0, 0, 0, 0) // {1: nested, 2: []} - no field 3
	complete := append(append([]byte{0x0c, 0, 1}, nested...), nested...)
	if dr := fDecode(incomplete, &zoo.ReqNode{}); dr.panicked() || dr.err == nil {
		res.RefMismatch++
		if res.FirstMismatch == "" {
			res.FirstMismatch = fmt.Sprintf("after legacy calls: a ReqNode message lacking the outer required field 3 was not refused (err=%v panic=%v)", dr.err, dr.pv)
		}
	}
	if dr := fDecode(complete, &zoo.ReqNode{}); dr.panicked() || dr.err != nil {
		res.RefMismatch++
		if res.FirstMismatch == "" {
			res.FirstMismatch = fmt.Sprintf("after legacy calls: a complete ReqNode message was refused (err=%v panic=%v)", dr.err, dr.pv)
		}
	}
}

type c17Held struct {
	s     *schema.Struct
	v     reflect.Value
	canon []byte
	ci    int
}

// c17PtrPtr is a **struct: an argument (and a Pretouch target) the codec does not accept.
func c17PtrPtr() interface{} {
	l := &zoo.Leaf{A: 1}
	return &l
}

// RunSubC17 runs inside the child: spec = "c17|seed|items|placement".
func RunSubC17(spec string) {
	parts := strings.Split(spec, "|")
	seed, _ := strconv.ParseUint(parts[1], 10, 64)
	items, _ := strconv.Atoi(parts[2])
	place := parts[3]
	res := &c17Result{}
	h := sha256.New()
	lr := gen.New(seed ^ 0xabcdef)
	stop := make(chan struct{})
	var wg sync.WaitGroup
	if place == "goroutine" {
		wg.Add(1)
		go func() {
			defer wg.Done()
			gr := gen.New(seed ^ 0x5555)
			side := &c17Result{}
			for {
				select {
				case <-stop:
					res.LegacyCalls += side.LegacyCalls
					res.PretouchErr += side.PretouchErr
					res.SetterBad += side.SetterBad
					return
				default:
					legacyCalls(gr, side)
				}
			}
		}()
	}
	if place == "pre" {
		legacyCalls(lr, res)
	}
	note := func(format string, a ...interface{}) {
		res.RefMismatch++
		if res.FirstMismatch == "" {
			res.FirstMismatch = fmt.Sprintf(format, a...)
		}
	}
	stride := (encEnumerated + 3000) / items
	if stride < 1 {
		stride = 1
	}
	var held []c17Held
	for k := 0; k < items; k++ {
		if place == "each" || (place == "mid" && k == items/2) {
			legacyCalls(lr, res)
		}
		ci := (k * stride) % (encEnumerated + 3000)
		r := gen.For(seed, "C17corpus", ci)
		cc := encCase(nil, r, ci)
		s := cc.S
		want := ref.Encode(s, cc.V.Elem())
		sp := fSize(cc.V.Interface())
		sv := fSize(cc.V.Elem().Interface())
		buf := make([]byte, len(want)+64)
		er := fEncode(buf, cc.V.Interface())
		fmt.Fprintf(h, "item %d size %d %d %v %v n %d err %v|", ci, sp.n, sv.n, sp.panicked(), sv.panicked(), er.n, er.err != nil || er.panicked())
		if er.panicked() || er.err != nil {
			note("item %d: encode failed", ci)
			continue
		}
		out := buf[:er.n]
		co, cerr := wire.Canon(out)
		if cerr != nil {
			note("item %d: malformed output", ci)
			continue
		}
		h.Write(co)
		cw, _ := wire.Canon(want)
		if !bytes.Equal(co, cw) || sp.n != len(want) || sv.n != len(want) {
			note("item %d (%s): size %d/%d, bytes %s, reference %d bytes %s", ci, s.Describe(), sp.n, sv.n, hexClip(co), len(want), hexClip(cw))
		}
		dst := fresh(s)
		dr := fDecode(out, dst.Interface())
		fmt.Fprintf(h, "dec n %d err %v|", dr.n, dr.err != nil || dr.panicked())
		if dr.panicked() || dr.err != nil {
			note("item %d: decode failed: %v %v", ci, dr.err, dr.pv)
			continue
		}
		canon := ref.Canon(s, dst.Elem(), ref.CmpOpts{LenientDouble: true})
		h.Write(canon)
		// objects decoded earlier and still held stay what they were, whatever legacy
		// calls and decodes came after them
		for _, hv := range held {
			if !bytes.Equal(ref.Canon(hv.s, hv.v.Elem(), ref.CmpOpts{LenientDouble: true}), hv.canon) {
				note("an object decoded at item %d (%s) and still held changed after later legacy calls and decodes (now at item %d)", hv.ci, hv.s.Describe(), ci)
				break
			}
		}
		held = append(held, c17Held{s, dst, canon, ci})
		if len(held) > 6 {
			held = held[1:]
		}
		if d := ref.Diff(s, cc.V.Elem(), dst.Elem(), ref.CmpOpts{RoundTrip: true, LenientDouble: true}); d != "" {
			note("item %d: round trip differs: %s", ci, d)
		}
	}
	// Pretouch on a pointer to a live object must leave that object alone, also when
	// other values of its type are later passed by value
	if place != "none" {
		for _, z := range []interface{}{&zoo.Leaf{}, &zoo.Wide{}, &zoo.MutA{}, &zoo.Defs2{}} {
			s := gen.Zoo(z)
			v1 := gen.NewValue(lr, s, gen.DefaultValCfg())
			v2 := gen.NewValue(lr, s, gen.DefaultValCfg())
			before := ref.Canon(s, v1.Elem(), ref.CmpOpts{})
			res.LegacyCalls++
			if err := frugal.Pretouch(v1.Interface(), frugal.WithMaxInlineDepth(3)); err != nil {
				res.PretouchErr++
			}
			if err := frugal.Pretouch(v1.Elem().Interface()); err != nil {
				res.PretouchErr++
			}
			fSize(v2.Elem().Interface())
			fEncode(make([]byte, len(ref.Encode(s, v2.Elem()))+16), v2.Elem().Interface())
			if !bytes.Equal(before, ref.Canon(s, v1.Elem(), ref.CmpOpts{})) {
				note("an object passed to Pretouch was modified by later by-value calls on another value of type %s", s.Name)
			}
		}
	}
	// types whose very first use was through a by-value argument, then Pretouch with a
	// pointer (and with the type), then ordinary pointer calls and the first use of another
	// fresh type: every call returns, with the reference result
	if place != "none" {
		for k := 0; k < 3; k++ {
			tcf := gen.DefaultTypeCfg()
			tcf.BigIDs = false
			s := gen.RandomStruct(lr, tcf, 0)
			v := gen.NewValue(lr, s, gen.DefaultValCfg())
			want := ref.Encode(s, v.Elem())
			if sz := fSize(v.Elem().Interface()); sz.panicked() || sz.n != len(want) {
				note("fresh type first used by value: EncodedSize=%d panic=%v, reference %d", sz.n, sz.pv, len(want))
			}
			res.LegacyCalls++
			if err := frugal.Pretouch(v.Interface()); err != nil {
				res.PretouchErr++
			}
			if err := frugal.Pretouch(s.Go, frugal.WithMaxPretouchDepth(2)); err != nil {
				res.PretouchErr++
			}
			if sz := fSize(v.Interface()); sz.panicked() || sz.n != len(want) {
				note("after Pretouch of a type first used by value: EncodedSize(ptr)=%d panic=%v, reference %d", sz.n, sz.pv, len(want))
			}
			s2 := gen.RandomStruct(lr, tcf, 0)
			v2 := gen.NewValue(lr, s2, gen.DefaultValCfg())
			want2 := ref.Encode(s2, v2.Elem())
			buf := make([]byte, len(want2)+8)
			if er := fEncode(buf, v2.Interface()); er.panicked() || er.err != nil || !sameUpToMapOrder(buf[:er.n], want2) {
				note("first use of another fresh type after Pretouch: err=%v panic=%v", er.err, er.pv)
			}
		}
	}
	// the decoder's depth bound must not follow any setting
	for _, d := range []int{48, 100, 300, 500, 511, 512, 513, 600, 1024, 1500, 3000, 20000} {
		steps := make([]string, d-1)
		for i := range steps {
			steps[i] = "next"
		}
		dr := fDecode(deepMessage(steps), &zoo.Node{})
		fmt.Fprintf(h, "depth %d ok %v|", d, dr.err == nil && !dr.panicked())
		if dr.panicked() || (d <= 48 && dr.err != nil) {
			note("depth probe %d: err=%v panic=%v", d, dr.err, dr.pv)
		}
	}
	// rejected definitions must stay rejected whatever Pretouch was told
	for _, bad := range []interface{}{&zoo.BadTop{}, &zoo.BadTop2{}, &zoo.Bad{}, &zoo.BadTop3{}, c17PtrPtr(), new(int), []zoo.Leaf{{}}, map[string]*zoo.Leaf{}, &[]*zoo.Leaf{}} {
		er := fEncode(make([]byte, 64), bad)
		dr := fDecode([]byte{0}, bad)
		sz := fSize(bad)
		fmt.Fprintf(h, "bad %T enc %v dec %v size-panics %v|", bad, er.err != nil, dr.err != nil, sz.panicked())
		if er.err == nil || er.panicked() || dr.err == nil || dr.panicked() || !sz.panicked() {
			note("rejected type %T is no longer rejected cleanly: enc err=%v panic=%v dec err=%v size panicked=%v", bad, er.err, er.pv, dr.err, sz.panicked())
		}
	}
	close(stop)
	wg.Wait()
	res.Items = items
	res.Digest = fmt.Sprintf("%x", h.Sum(nil))
	json.NewEncoder(os.Stdout).Encode(res)
}
