package checks

import (
	"bytes"
	"encoding/json"
	"fmt"
	"os"
	"reflect"
	"runtime"
	"strconv"
	"strings"
	"time"
	"unsafe"

	"verif/gen"
	"verif/harness"
	"verif/mon"
	"verif/ref"
	"verif/schema"
	"verif/zoo"
)

func init() {
	register(&Check{
		ID:   "C13",
		Rule: "case = (invalid class, position, entry-point order): every enumerated invalid definition class (unsupported Go kinds uint*/float32/array/chan/func/interface/complex/uintptr; unannotated slice; annotation contradicting the Go type; syntactically broken annotation; invalid map key; non-struct pointer as element/value; **T, *[]T, *map; duplicate / non-numeric / out-of-range id; unknown requiredness/option; nocopy misuse; non-optional scalar pointer) is instantiated as a fresh dynamic type at top-field / nested-pointer-struct / nested-by-value-struct / list-element / map-value / map-key position and depth 1-3, then EncodeObject, DecodeObject and EncodedSize are called in a seeded order, each 3 times, with pointer and by-value arguments, interleaved with a valid sibling type sharing nested types. Static recursive families (invalid type behind a cycle) and invalid arguments run in fresh sub-processes, one per call order. Oracle: err!=nil and n==0, buffer canaries and destination byte-identical, EncodedSize panics with a non-runtime.Error, same outcome on every call, valid sibling still equals the reference codec. distinct = distinct (class, position, order); non-trivial = always (every case calls all three entry points)",
		Plan: func(tier string) []BuildPlan {
			n := len(invalidClasses) * len(c13Positions) * 2
			if tier == "thorough" {
				return []BuildPlan{{"plain", n*40 + len(c13Subs)}, {"checkptr", n*10 + len(c13Subs)}, {"asan", n + len(c13Subs)}}
			}
			return []BuildPlan{{"plain", n + len(c13Subs)}, {"checkptr", n/2 + len(c13Subs)}}
		},
		Run: runC13,
		Assumptions: []string{
			"pointer to binary (*[]byte) and a typed nil struct pointer argument are LENIENT: they may be rejected or handled correctly, never a fault",
		},
	})
}

type invalidClass struct {
	name string
	// field returns the Go type and raw tag of the offending field
	field func(r *gen.Rand) (reflect.Type, string)
	lenient bool
}

func tagOf(s string) string { return `frugal:"` + s + `"` }

var leafT = reflect.TypeOf(zoo.Leaf{})

var invalidClasses = []invalidClass{
	{"kind:uint", func(r *gen.Rand) (reflect.Type, string) { return reflect.TypeOf(uint(0)), tagOf("1,default,i64") }, false},
	{"kind:uint8", func(r *gen.Rand) (reflect.Type, string) { return reflect.TypeOf(uint8(0)), tagOf("1,default,i8") }, false},
	{"kind:uint16", func(r *gen.Rand) (reflect.Type, string) { return reflect.TypeOf(uint16(0)), tagOf("1,default,i16") }, false},
	{"kind:uint32", func(r *gen.Rand) (reflect.Type, string) { return reflect.TypeOf(uint32(0)), tagOf("1,default,i32") }, false},
	{"kind:uint64", func(r *gen.Rand) (reflect.Type, string) { return reflect.TypeOf(uint64(0)), tagOf("1,default,i64") }, false},
	{"kind:uintptr", func(r *gen.Rand) (reflect.Type, string) { return reflect.TypeOf(uintptr(0)), tagOf("1,default,i64") }, false},
	{"kind:float32", func(r *gen.Rand) (reflect.Type, string) { return reflect.TypeOf(float32(0)), tagOf("1,default,double") }, false},
	{"kind:complex128", func(r *gen.Rand) (reflect.Type, string) { return reflect.TypeOf(complex128(0)), tagOf("1,default,double") }, false},
	{"kind:array", func(r *gen.Rand) (reflect.Type, string) { return reflect.TypeOf([4]int32{}), tagOf("1,default,list<i32>") }, false},
	{"kind:chan", func(r *gen.Rand) (reflect.Type, string) { return reflect.TypeOf((chan int)(nil)), tagOf("1,default,i32") }, false},
	{"kind:func", func(r *gen.Rand) (reflect.Type, string) { return reflect.TypeOf((func())(nil)), tagOf("1,default,i32") }, false},
	{"kind:interface", func(r *gen.Rand) (reflect.Type, string) {
		return reflect.TypeOf((*interface{})(nil)).Elem(), tagOf("1,default,string")
	}, false},
	{"kind:unsafe.Pointer", func(r *gen.Rand) (reflect.Type, string) { return reflect.TypeOf(unsafe.Pointer(nil)), tagOf("1,default,i64") }, false},
	{"kind:[]uint16", func(r *gen.Rand) (reflect.Type, string) { return reflect.TypeOf([]uint16(nil)), tagOf("1,default,list<i16>") }, false},
	{"kind:map-uint-value", func(r *gen.Rand) (reflect.Type, string) { return reflect.TypeOf(map[string]uint32(nil)), tagOf("1,default,map<string:i32>") }, false},
	{"slice:named-uint8-unannotated", func(r *gen.Rand) (reflect.Type, string) { return reflect.TypeOf([]zoo.Octet(nil)), tagOf("1,default") }, false},
	{"slice:named-uint8-as-binary", func(r *gen.Rand) (reflect.Type, string) { return reflect.TypeOf([]zoo.Octet(nil)), tagOf("1,default,binary") }, false},
	{"slice:named-uint8-as-list", func(r *gen.Rand) (reflect.Type, string) { return reflect.TypeOf([]zoo.Octet(nil)), tagOf("1,default,list<i8>") }, false},
	{"slice:named-uint8-map-value", func(r *gen.Rand) (reflect.Type, string) { return reflect.TypeOf(map[string][]zoo.Octet(nil)), tagOf("1,default") }, false},
	{"kind:named-uint8", func(r *gen.Rand) (reflect.Type, string) { return reflect.TypeOf(zoo.Octet(0)), tagOf("1,default,i8") }, false},
	{"slice:unannotated", func(r *gen.Rand) (reflect.Type, string) { return reflect.TypeOf([]int32(nil)), tagOf("1,default") }, false},
	{"slice:unannotated-nested", func(r *gen.Rand) (reflect.Type, string) { return reflect.TypeOf(map[string][]int32(nil)), tagOf("1,default") }, false},
	{"slice:empty-annotation", func(r *gen.Rand) (reflect.Type, string) { return reflect.TypeOf([]string(nil)), tagOf("1,default,") }, false},
	{"annot:i32-as-i64", func(r *gen.Rand) (reflect.Type, string) { return reflect.TypeOf(int32(0)), tagOf("1,default,i64") }, false},
	{"annot:string-as-binary", func(r *gen.Rand) (reflect.Type, string) { return reflect.TypeOf(""), tagOf("1,default,binary") }, false},
	{"annot:bytes-as-string", func(r *gen.Rand) (reflect.Type, string) { return reflect.TypeOf([]byte(nil)), tagOf("1,default,string") }, false},
	{"annot:bool-as-i8", func(r *gen.Rand) (reflect.Type, string) { return reflect.TypeOf(false), tagOf("1,default,i8") }, false},
	{"annot:slice-as-map", func(r *gen.Rand) (reflect.Type, string) { return reflect.TypeOf([]int32(nil)), tagOf("1,default,map<i32:i32>") }, false},
	{"annot:map-as-list", func(r *gen.Rand) (reflect.Type, string) { return reflect.TypeOf(map[int32]int32(nil)), tagOf("1,default,list<i32>") }, false},
	{"annot:list-elem-mismatch", func(r *gen.Rand) (reflect.Type, string) { return reflect.TypeOf([]int64(nil)), tagOf("1,default,list<i32>") }, false},
	{"annot:map-value-mismatch", func(r *gen.Rand) (reflect.Type, string) { return reflect.TypeOf(map[string]int16(nil)), tagOf("1,default,map<string:string>") }, false},
	{"annot:struct-name-mismatch", func(r *gen.Rand) (reflect.Type, string) { return reflect.PtrTo(leafT), tagOf("1,optional,NotLeaf") }, false},
	{"annot:struct-as-i32", func(r *gen.Rand) (reflect.Type, string) { return reflect.PtrTo(leafT), tagOf("1,optional,i32") }, false},
	{"annot:enum-name-mismatch", func(r *gen.Rand) (reflect.Type, string) { return zoo.Enums[0], tagOf("1,default,E9") }, false},
	{"annot:double-as-struct", func(r *gen.Rand) (reflect.Type, string) { return reflect.TypeOf(float64(0)), tagOf("1,default,Foo") }, false},
	{"syntax:missing-gt", func(r *gen.Rand) (reflect.Type, string) { return reflect.TypeOf([]int32(nil)), tagOf("1,default,list<i32") }, false},
	{"syntax:missing-lt", func(r *gen.Rand) (reflect.Type, string) { return reflect.TypeOf([]int32(nil)), tagOf("1,default,list i32>") }, false},
	{"syntax:map-comma", func(r *gen.Rand) (reflect.Type, string) { return reflect.TypeOf(map[int32]int32(nil)), tagOf("1,default,map<i32;i32>") }, false},
	{"syntax:map-missing-value", func(r *gen.Rand) (reflect.Type, string) { return reflect.TypeOf(map[int32]int32(nil)), tagOf("1,default,map<i32>") }, false},
	{"syntax:empty-elem", func(r *gen.Rand) (reflect.Type, string) { return reflect.TypeOf([]int32(nil)), tagOf("1,default,list<>") }, false},
	{"syntax:not-list-or-set", func(r *gen.Rand) (reflect.Type, string) { return reflect.TypeOf([]int32(nil)), tagOf("1,default,vector<i32>") }, false},
	{"syntax:punct", func(r *gen.Rand) (reflect.Type, string) { return reflect.TypeOf(int32(0)), tagOf("1,default,<") }, false},
	{"key:float32", func(r *gen.Rand) (reflect.Type, string) { return reflect.TypeOf(map[float32]int32(nil)), tagOf("1,default,map<double:i32>") }, false},
	{"key:struct-by-value", func(r *gen.Rand) (reflect.Type, string) { return reflect.MapOf(leafT, reflect.TypeOf(int32(0))), tagOf("1,default,map<Leaf:i32>") }, false},
	{"key:pointer-to-scalar", func(r *gen.Rand) (reflect.Type, string) { return reflect.TypeOf(map[*int32]int32(nil)), tagOf("1,default,map<i32:i32>") }, false},
	{"key:array", func(r *gen.Rand) (reflect.Type, string) { return reflect.TypeOf(map[[2]int32]int32(nil)), tagOf("1,default,map<list<i32>:i32>") }, false},
	{"key:pointer-to-string", func(r *gen.Rand) (reflect.Type, string) { return reflect.TypeOf(map[*string]int32(nil)), tagOf("1,default,map<string:i32>") }, false},
	{"elem:pointer-to-scalar", func(r *gen.Rand) (reflect.Type, string) { return reflect.TypeOf([]*int32(nil)), tagOf("1,default,list<i32>") }, false},
	{"elem:pointer-to-string", func(r *gen.Rand) (reflect.Type, string) { return reflect.TypeOf([]*string(nil)), tagOf("1,default,set<string>") }, false},
	{"value:pointer-to-scalar", func(r *gen.Rand) (reflect.Type, string) { return reflect.TypeOf(map[string]*int64(nil)), tagOf("1,default,map<string:i64>") }, false},
	{"value:pointer-to-list", func(r *gen.Rand) (reflect.Type, string) { return reflect.TypeOf(map[string]*[]int64(nil)), tagOf("1,default,map<string:list<i64>>") }, false},
	{"value:pointer-to-scalar-unannotated", func(r *gen.Rand) (reflect.Type, string) { return reflect.TypeOf(map[string]*int32(nil)), tagOf("1,default") }, false},
	{"value:pointer-to-scalar-thrift-tag", func(r *gen.Rand) (reflect.Type, string) { return reflect.TypeOf(map[string]*int64(nil)), `thrift:"m,1,optional"` }, false},
	{"value:nested-pointer-to-scalar-unannotated", func(r *gen.Rand) (reflect.Type, string) { return reflect.TypeOf(map[string]map[int32]*float64(nil)), tagOf("1,default") }, false},
	{"key:pointer-to-scalar-unannotated", func(r *gen.Rand) (reflect.Type, string) { return reflect.TypeOf(map[*int32]string(nil)), tagOf("1,default") }, false},
	{"key:struct-by-value-unannotated", func(r *gen.Rand) (reflect.Type, string) { return reflect.MapOf(leafT, reflect.TypeOf(int32(0))), tagOf("1,default") }, false},
	{"key:float32-unannotated", func(r *gen.Rand) (reflect.Type, string) { return reflect.TypeOf(map[float32]int32(nil)), tagOf("1,default") }, false},
	{"kind:uint32-unannotated", func(r *gen.Rand) (reflect.Type, string) { return reflect.TypeOf(uint32(0)), tagOf("1,default") }, false},
	{"kind:map-uint-value-unannotated", func(r *gen.Rand) (reflect.Type, string) { return reflect.TypeOf(map[string]uint16(nil)), tagOf("1") }, false},
	{"ptr:ptr-to-map-unannotated", func(r *gen.Rand) (reflect.Type, string) { return reflect.TypeOf((*map[string]int32)(nil)), tagOf("1,optional") }, false},
	{"ptr:ptr-to-ptr-struct-unannotated", func(r *gen.Rand) (reflect.Type, string) { return reflect.PtrTo(reflect.PtrTo(leafT)), tagOf("1,optional") }, false},
	{"ptr:map-value-ptr-to-ptr-unannotated", func(r *gen.Rand) (reflect.Type, string) { return reflect.MapOf(reflect.TypeOf(""), reflect.PtrTo(reflect.PtrTo(leafT))), tagOf("1,default") }, false},
	{"ptr:non-optional-scalar-unannotated", func(r *gen.Rand) (reflect.Type, string) { return reflect.TypeOf((*int64)(nil)), tagOf("1") }, false},
	{"ptr:ptr-to-ptr-struct", func(r *gen.Rand) (reflect.Type, string) { return reflect.PtrTo(reflect.PtrTo(leafT)), tagOf("1,optional,Leaf") }, false},
	{"ptr:ptr-to-ptr-scalar", func(r *gen.Rand) (reflect.Type, string) { return reflect.TypeOf((**int32)(nil)), tagOf("1,optional,i32") }, false},
	{"ptr:ptr-to-list", func(r *gen.Rand) (reflect.Type, string) { return reflect.TypeOf((*[]int32)(nil)), tagOf("1,optional,list<i32>") }, false},
	{"ptr:ptr-to-set-of-struct", func(r *gen.Rand) (reflect.Type, string) { return reflect.PtrTo(reflect.SliceOf(reflect.PtrTo(leafT))), tagOf("1,optional,set<Leaf>") }, false},
	{"ptr:ptr-to-map", func(r *gen.Rand) (reflect.Type, string) { return reflect.TypeOf((*map[string]int32)(nil)), tagOf("1,optional,map<string:i32>") }, false},
	{"ptr:elem-ptr-to-ptr", func(r *gen.Rand) (reflect.Type, string) { return reflect.SliceOf(reflect.PtrTo(reflect.PtrTo(leafT))), tagOf("1,default,list<Leaf>") }, false},
	{"ptr:ptr-to-binary", func(r *gen.Rand) (reflect.Type, string) { return reflect.TypeOf((*[]byte)(nil)), tagOf("1,optional,binary") }, true},
	{"ptr:non-optional-scalar", func(r *gen.Rand) (reflect.Type, string) { return reflect.TypeOf((*int32)(nil)), tagOf("1,default,i32") }, false},
	{"ptr:non-optional-binary", func(r *gen.Rand) (reflect.Type, string) { return reflect.TypeOf((*[]byte)(nil)), tagOf("1,default,binary") }, false},
	{"ptr:required-binary", func(r *gen.Rand) (reflect.Type, string) { return reflect.TypeOf((*[]byte)(nil)), tagOf("1,required,binary") }, false},
	{"ptr:non-optional-enum", func(r *gen.Rand) (reflect.Type, string) { return reflect.PtrTo(zoo.Enums[1]), tagOf("1,default,E1") }, false},
	{"ptr:non-optional-bool", func(r *gen.Rand) (reflect.Type, string) { return reflect.TypeOf((*bool)(nil)), tagOf("1,required,bool") }, false},
	{"ptr:required-string", func(r *gen.Rand) (reflect.Type, string) { return reflect.TypeOf((*string)(nil)), tagOf("1,required,string") }, false},
	{"id:duplicate", func(r *gen.Rand) (reflect.Type, string) { return reflect.TypeOf(int32(0)), "DUP" }, false},
	{"id:non-numeric", func(r *gen.Rand) (reflect.Type, string) { return reflect.TypeOf(int32(0)), tagOf("x,default,i32") }, false},
	{"id:empty", func(r *gen.Rand) (reflect.Type, string) { return reflect.TypeOf(int32(0)), tagOf("") }, false},
	{"id:negative", func(r *gen.Rand) (reflect.Type, string) { return reflect.TypeOf(int32(0)), tagOf("-1,default,i32") }, false},
	{"id:fraction", func(r *gen.Rand) (reflect.Type, string) { return reflect.TypeOf(int32(0)), tagOf("1.5,default,i32") }, false},
	{"id:65536", func(r *gen.Rand) (reflect.Type, string) { return reflect.TypeOf(int32(0)), tagOf("65536,default,i32") }, false},
	{"id:huge", func(r *gen.Rand) (reflect.Type, string) { return reflect.TypeOf(int32(0)), tagOf("99999999999999999999,default,i32") }, false},
	{"id:hex", func(r *gen.Rand) (reflect.Type, string) { return reflect.TypeOf(int32(0)), tagOf("0x10,default,i32") }, false},
	{"id:thrift-name-only", func(r *gen.Rand) (reflect.Type, string) { return reflect.TypeOf(int32(0)), `thrift:"name"` }, false},
	{"req:unknown", func(r *gen.Rand) (reflect.Type, string) { return reflect.TypeOf(int32(0)), tagOf("1,requird,i32") }, false},
	{"req:capitalised", func(r *gen.Rand) (reflect.Type, string) { return reflect.TypeOf(int32(0)), tagOf("1,Required,i32") }, false},
	{"req:empty", func(r *gen.Rand) (reflect.Type, string) { return reflect.TypeOf(int32(0)), tagOf("1,,i32") }, false},
	{"opt:unknown", func(r *gen.Rand) (reflect.Type, string) { return reflect.TypeOf(""), tagOf("1,default,string,zerocopy") }, false},
	{"opt:nocopy-on-i32", func(r *gen.Rand) (reflect.Type, string) { return reflect.TypeOf(int32(0)), tagOf("1,default,i32,nocopy") }, false},
	{"opt:nocopy-on-list", func(r *gen.Rand) (reflect.Type, string) { return reflect.TypeOf([]string(nil)), tagOf("1,default,list<string>,nocopy") }, false},
	{"opt:nocopy-twice", func(r *gen.Rand) (reflect.Type, string) { return reflect.TypeOf(""), tagOf("1,default,string,nocopy,nocopy") }, false},
	{"opt:empty", func(r *gen.Rand) (reflect.Type, string) { return reflect.TypeOf(""), tagOf("1,default,string,") }, false},
}

func init() {
	for _, id := range []int{0, 6, 64} {
		id := id
		invalidClasses = append(invalidClasses, invalidClass{fmt.Sprintf("id:duplicate-respelled-%d", id), func(r *gen.Rand) (reflect.Type, string) {
			return reflect.TypeOf(int32(0)), fmt.Sprintf("DUPPAD:%d", id)
		}, false})
	}
	for _, id := range []int{0, 1, 31, 32, 63, 64, 65, 127, 128, 255, 256, 1023, 1024, 4095, 4096} {
		id := id
		invalidClasses = append(invalidClasses, invalidClass{fmt.Sprintf("id:duplicate-at-%d", id), func(r *gen.Rand) (reflect.Type, string) {
			return reflect.TypeOf(int32(0)), fmt.Sprintf("DUPEDGE:%d", id)
		}, false})
	}
}

var c13Positions = []string{"top", "nested-ptr", "nested-val", "list-elem", "map-value", "map-key", "depth3"}

// buildInvalid builds a fresh dynamic struct holding the offending field at the
// requested position, plus a valid sibling sharing the valid nested types.
func buildInvalid(r *gen.Rand, ic *invalidClass, pos string) (bad reflect.Type, sibling, sibling2 *schema.Struct) {
	ft, tag := ic.field(r)
	// valid helper structs shared between the invalid type and its sibling: the
	// by-value struct S1 itself holds a pointer to another struct, and both are
	// reached (lower field ids) BEFORE the offending field, so that a failed
	// registration has already linked them when it is rolled back
	tc := &gen.TypeCfg{MaxDepth: 1, MaxFields: 3, Required: false}
	s2 := gen.RandomStruct(r, tc, 1)
	shared := &schema.Struct{UnknownIdx: -1, Fields: []*schema.Field{
		{ID: 1, Req: schema.Default, T: schema.Scalar(schema.I32)},
		{ID: 2, Req: schema.Optional, T: schema.StructOf(s2, true)},
		{ID: 3, Req: schema.Default, T: schema.ListOf(schema.StructOf(s2, true))},
	}}
	shared.Build()
	shPtr := func(id int) reflect.StructField {
		return reflect.StructField{Name: schema.UniqueName("Sh"), Type: reflect.PtrTo(shared.Go), Tag: reflect.StructTag(tagOf(fmt.Sprintf("%d,optional,Dyn", id)))}
	}
	shVal := func(id int) reflect.StructField {
		return reflect.StructField{Name: schema.UniqueName("Sv"), Type: shared.Go, Tag: reflect.StructTag(tagOf(fmt.Sprintf("%d,default,Dyn", id)))}
	}
	// the offending field's own id is 40 so that the shared fields come first
	if strings.HasPrefix(tag, `frugal:"1`) {
		tag = `frugal:"40` + tag[len(`frugal:"1`):]
	}
	fields := []reflect.StructField{
		{Name: schema.UniqueName("Ok"), Type: reflect.TypeOf(int64(0)), Tag: reflect.StructTag(tagOf("5,default,i64"))},
		shPtr(7), shVal(8),
	}
	badF := reflect.StructField{Name: schema.UniqueName("Bad"), Type: ft, Tag: reflect.StructTag(tag)}
	if tag == "DUP" {
		badF.Tag = reflect.StructTag(tagOf("5,default,i32")) // duplicates the id of Ok
	}
	if strings.HasPrefix(tag, "DUPPAD:") {
		// the same id written in two accepted spellings (decimal with leading zeros)
		id, _ := strconv.Atoi(tag[len("DUPPAD:"):])
		fields = append(fields, reflect.StructField{Name: schema.UniqueName("Twin"), Type: reflect.TypeOf(""), Tag: reflect.StructTag(tagOf(fmt.Sprintf("%d,default,string", id)))})
		badF.Tag = reflect.StructTag(tagOf(fmt.Sprintf("%0*d,default,i32", len(fmt.Sprint(id))+1+r.Intn(3), id)))
	}
	if strings.HasPrefix(tag, "DUPEDGE:") {
		// two fields share an id at the edges of every plausible id bookkeeping structure
		id, _ := strconv.Atoi(tag[len("DUPEDGE:"):])
		fields = append(fields, reflect.StructField{Name: schema.UniqueName("Twin"), Type: reflect.TypeOf(""), Tag: reflect.StructTag(tagOf(fmt.Sprintf("%d,default,string", id)))})
		badF.Tag = reflect.StructTag(tagOf(fmt.Sprintf("%d,default,i32", id)))
	}
	// order of the offending field among the valid ones varies
	if r.Bool() {
		fields = append([]reflect.StructField{badF}, fields...)
	} else {
		fields = append(fields, badF)
	}
	inner := reflect.StructOf(fields)
	wrap := func(t reflect.Type, tag string) reflect.Type {
		return reflect.StructOf([]reflect.StructField{
			{Name: schema.UniqueName("W"), Type: reflect.TypeOf(""), Tag: reflect.StructTag(tagOf("1,default,string"))},
			shVal(2), shPtr(3),
			{Name: schema.UniqueName("N"), Type: t, Tag: reflect.StructTag(tagOf("20," + tag[strings.Index(tag, ",")+1:]))},
			shPtr(30),
		})
	}
	switch pos {
	case "top":
		bad = inner
	case "nested-ptr":
		bad = wrap(reflect.PtrTo(inner), "2,optional,Dyn")
	case "nested-val":
		bad = wrap(inner, "2,default,Dyn")
	case "list-elem":
		bad = wrap(reflect.SliceOf(reflect.PtrTo(inner)), "2,default,list<Dyn>")
	case "map-value":
		bad = wrap(reflect.MapOf(reflect.TypeOf(""), reflect.PtrTo(inner)), "2,default,map<string:Dyn>")
	case "map-key":
		bad = wrap(reflect.MapOf(reflect.PtrTo(inner), reflect.TypeOf(int32(0))), "2,default,map<Dyn:i32>")
	case "depth3":
		bad = wrap(reflect.PtrTo(wrap(reflect.SliceOf(wrap(reflect.PtrTo(inner), "2,optional,Dyn")), "2,default,set<Dyn>")), "2,optional,Dyn")
	}
	// two siblings: one reaches the shared struct only by value, the other only
	// through pointers (a pointer use re-links what a by-value use relies on,
	// so the by-value-only sibling is checked first)
	sibling = &schema.Struct{UnknownIdx: -1, Fields: []*schema.Field{
		{ID: 1, Req: schema.Default, T: schema.Scalar(schema.String)},
		{ID: 8, Req: schema.Default, T: schema.StructOf(shared, false)},
		{ID: 13, Req: schema.Default, T: schema.MapOf(schema.Scalar(schema.I32), schema.StructOf(shared, false))},
	}}
	sibling2 = &schema.Struct{UnknownIdx: -1, Fields: []*schema.Field{
		{ID: 9, Req: schema.Optional, T: schema.StructOf(shared, true)},
		{ID: 12, Req: schema.Default, T: schema.ListOf(schema.StructOf(shared, true))},
	}}
	sibling2.Build()
	sibling.Build()
	return
}

type rejectObs struct {
	what string
}

// checkRejected calls one entry point on an invalid type and returns a
// description of the misbehaviour, or "".
func checkRejected(entry string, t reflect.Type, byValue bool) (string, string) {
	v := reflect.New(t)
	ptrptr := t.Kind() == reflect.Ptr && t.Elem().Kind() == reflect.Struct && !byValue
	if ptrptr {
		v.Elem().Set(reflect.New(t.Elem())) // a **T argument pointing at a real T
	}
	var arg interface{} = v.Interface()
	if byValue {
		arg = v.Elem().Interface()
	}
	switch entry {
	case "encode":
		cb := mon.NewCanary(256, 512, 0x3c)
		r := fEncode(cb.Buf, arg)
		if r.panicked() {
			return "encode-panic/" + panicSig(r), fmt.Sprintf("EncodeObject panicked instead of returning an error: %v [%s]", r.pv, shortStack(r.stack))
		}
		if r.err == nil {
			return "encode-accepted", fmt.Sprintf("EncodeObject accepted the invalid definition (n=%d)", r.n)
		}
		if r.n != 0 {
			return "encode-n", fmt.Sprintf("EncodeObject returned n=%d with error %v", r.n, r.err)
		}
		if off, ok := cb.Check(0); !ok {
			return "encode-wrote", fmt.Sprintf("EncodeObject rejected the type but wrote to the buffer (offset %d)", off)
		}
	case "decode":
		if byValue {
			return "", ""
		}
		zero := reflect.New(t)
		if ptrptr {
			zero.Elem().Set(reflect.New(t.Elem()))
		}
		for _, msg := range [][]byte{{0}, {8, 0, 5, 0, 0, 0, 9, 0}, {11, 0, 1, 0, 0, 0, 1, 'x', 10, 0, 5, 0, 0, 0, 0, 0, 0, 0, 3, 0}} {
			r := fDecode(msg, arg)
			if r.panicked() {
				return "decode-panic/" + panicSig(r), fmt.Sprintf("DecodeObject panicked instead of returning an error: %v [%s]", r.pv, shortStack(r.stack))
			}
			if r.err == nil {
				return "decode-accepted", fmt.Sprintf("DecodeObject accepted the invalid definition (n=%d)", r.n)
			}
			if r.n != 0 {
				return "decode-n", fmt.Sprintf("DecodeObject returned n=%d with error %v", r.n, r.err)
			}
			if !reflect.DeepEqual(v.Elem().Interface(), zero.Elem().Interface()) {
				return "decode-stored", "DecodeObject rejected the type but modified the destination"
			}
		}
	case "size":
		r := fSize(arg)
		if !r.panicked() {
			return "size-returned", fmt.Sprintf("EncodedSize returned %d for an invalid definition instead of panicking", r.n)
		}
		if _, isRT := r.pv.(runtime.Error); isRT {
			return "size-runtime-panic/" + panicSig(r), fmt.Sprintf("EncodedSize panicked with a runtime error instead of an ordinary panic: %v [%s]", r.pv, shortStack(r.stack))
		}
	}
	return "", ""
}

var c13Orders = [][]string{
	{"encode", "decode", "size"}, {"decode", "size", "encode"}, {"size", "encode", "decode"},
	{"encode", "size", "decode"}, {"decode", "encode", "size"}, {"size", "decode", "encode"},
}

func runC13(c *harness.Ctx, idx int) {
	r := c.Rand(idx)
	if idx < len(c13Subs) {
		runC13Sub(c, c13Subs[idx])
		return
	}
	idx -= len(c13Subs)
	ic := &invalidClasses[idx%len(invalidClasses)]
	pos := c13Positions[(idx/len(invalidClasses))%len(c13Positions)]
	order := c13Orders[r.Intn(len(c13Orders))]
	c.Describe("class=%s position=%s order=%v", ic.name, pos, order)
	c.Hint(ic.name)
	c.Tag("class:" + ic.name)
	c.Tag("pos:" + pos)
	c.Shape(ic.name + "/" + pos + "/" + strings.Join(order, ","))
	c.NonTrivial()
	bad, sibling, sibling2 := buildInvalid(r, ic, pos)
	c.Step("class=%s position=%s order=%v type=%v", ic.name, pos, order, bad)
	sibFirst := r.Bool()
	var checkOne func(sibling *schema.Struct, when string)
	checkSibling := func(when string) {
		checkOne(sibling, when)
		checkOne(sibling2, when)
	}
	checkOne = func(sibling *schema.Struct, when string) {
		v := gen.NewValue(r, sibling, gen.DefaultValCfg())
		want := ref.Encode(sibling, v.Elem())
		buf := make([]byte, len(want)+32)
		var arg interface{} = v.Interface()
		if r.Bool() {
			arg = v.Elem().Interface() // (first) use through a by-value argument
		}
		er := fEncode(buf, arg)
		if er.panicked() || er.err != nil {
			c.Violation("sibling", "C13/sibling-broken/"+ic.name, "valid sibling type failed %s the invalid type was used: err=%v panic=%v", when, er.err, er.pv)
			return
		}
		if !sameUpToMapOrder(buf[:er.n], want) {
			c.Violation("sibling", "C13/sibling-bytes/"+ic.name, "valid sibling type encodes differently %s the invalid type was used", when)
		}
		d := reflect.New(sibling.Go)
		dr := fDecode(want, d.Interface())
		if dr.panicked() || dr.err != nil {
			c.Violation("sibling", "C13/sibling-broken/"+ic.name, "valid sibling type fails to decode %s the invalid type was used: err=%v panic=%v", when, dr.err, dr.pv)
			return
		}
		if diff := ref.Diff(sibling, v.Elem(), d.Elem(), ref.CmpOpts{RoundTrip: true, LenientDouble: true}); diff != "" {
			c.Violation("sibling", "C13/sibling-value/"+ic.name, "valid sibling decodes differently %s the invalid type was used: %s", when, diff)
		}
	}
	if sibFirst {
		checkSibling("before")
	}
	verdicts := map[string]bool{}
	for round := 0; round < 3; round++ {
		for _, e := range order {
			for _, byValue := range []bool{false, true} {
				sig, msg := checkRejected(e, bad, byValue)
				accepted := strings.HasSuffix(sig, "-accepted") || sig == "size-returned"
				key := fmt.Sprint(e, byValue)
				if round > 0 && verdicts[key] != accepted {
					c.Violation("inconsistent", "C13/inconsistent/"+ic.name, "class %s at %s: %s (by value %v) changed its verdict on call %d", ic.name, pos, e, byValue, round+1)
				}
				verdicts[key] = accepted
				if sig == "" {
					continue
				}
				if ic.lenient && accepted {
					c.Tag("lenient-accepted:" + ic.name)
					continue
				}
				c.Violation(e, "C13/"+sig+"/"+ic.name, "class %s at %s, call %d, by value %v: %s", ic.name, pos, round+1, byValue, msg)
				round = 3
			}
		}
		if round == 0 {
			checkSibling("after")
		}
	}
	// a new type nesting the invalid one is rejected too; a new valid type still works
	outer := reflect.StructOf([]reflect.StructField{{Name: schema.UniqueName("O"), Type: reflect.PtrTo(bad), Tag: reflect.StructTag(tagOf("1,optional,Dyn"))}})
	if sig, msg := checkRejected("encode", outer, false); sig != "" && !(ic.lenient && sig == "encode-accepted") {
		c.Violation("outer", "C13/outer-"+sig+"/"+ic.name, "a type nesting the invalid definition: %s", msg)
	}
	checkSibling("after all calls on")
	// argument kinds around types with a history: **T of a valid type that has just been used
	// through pointers, and a typed nil pointer to the rejected definition
	for _, e := range order {
		if sig, msg := checkRejected(e, reflect.PtrTo(sibling2.Go), false); sig != "" {
			c.Violation("ptrptr", "C13/ptr-to-ptr-after-use/"+sig, "**T of a valid, already used struct type: %s", msg)
		}
		if sig, msg := checkRejected(e, reflect.PtrTo(bad), true); sig != "" && !ic.lenient {
			c.Violation("nilptr", "C13/nil-ptr-to-rejected/"+sig+"/"+ic.name, "typed nil pointer to the invalid definition (class %s): %s", ic.name, msg)
		}
	}
	c.Sample(map[string]string{"class": ic.name, "position": pos, "type": bad.String()})
}

// ---------------------------------------------------------------------------
// sub-process scenarios: static recursive families and invalid arguments

var c13Subs = []string{
	"zoo:top-then-top2", "zoo:top2-first", "zoo:badb-after-top", "zoo:top3-then-badd", "zoo:size-first", "zoo:byvalue-cycle", "zoo:byvalue-cycle-r-first",
	"args:encode", "args:decode", "args:size",
}

type subResult struct {
	Violations []string `json:"violations"`
	Steps      int      `json:"steps"`
}

func runC13Sub(c *harness.Ctx, name string) {
	c.Describe("sub-process scenario %s", name)
	c.Hint(name)
	c.Tag("sub:" + name)
	c.Shape("sub/" + name)
	c.NonTrivial()
	outB, errB, err, hung := runSub(name, nil, 10*time.Minute)
	if hung && subStalled(errB) {
		c.Violation("no-progress", "C13/sub/"+name+"/child-blocked", "scenario %s blocked (no CPU time consumed for 150 s): %s", name, clipStr(string(errB), 3000))
		return
	}
	if hung {
		c.Inconclusive("scenario %s exceeded the 10 min wall-clock limit: %s", name, clipStr(string(errB), 1500))
		return
	}
	out, errb := bytes.NewBuffer(outB), bytes.NewBuffer(errB)
	var res subResult
	if jerr := json.Unmarshal(out.Bytes(), &res); err != nil || jerr != nil {
		es := errb.String()
		if len(es) > 1500 {
			es = es[:1500]
		}
		c.Violation("sub-died", "C13/sub-died/"+name, "scenario %s: sub-process failed (%v): %s", name, err, es)
		return
	}
	for _, v := range res.Violations {
		c.Violation("sub", "C13/sub/"+name+"/"+firstField(v), "scenario %s: %s", name, v)
	}
	c.Count("sub_steps", int64(res.Steps))
	c.Sample(map[string]interface{}{"scenario": name, "steps": res.Steps})
}

func firstField(s string) string {
	if i := strings.Index(s, ":"); i > 0 {
		return s[:i]
	}
	return "x"
}

// RunSub executes a scenario in this (fresh) process and prints the result.
func RunSub(name string) {
	if strings.HasPrefix(name, "c17|") {
		RunSubC17(name)
		return
	}
	if strings.HasPrefix(name, "c08cyc|") {
		RunSubC08Cyc(name)
		return
	}
	if strings.HasPrefix(name, "c07|") {
		RunSubC07(name)
		return
	}
	res := &subResult{}
	expectReject := func(label string, t reflect.Type) {
		for _, e := range []string{"encode", "decode", "size"} {
			for round := 0; round < 2; round++ {
				res.Steps++
				if sig, msg := checkRejected(e, t, false); sig != "" {
					res.Violations = append(res.Violations, fmt.Sprintf("%s: %s %s (call %d): %s", sig, label, e, round+1, msg))
					break
				}
			}
		}
	}
	expectRejectValue := func(label string, v interface{}) {
		res.Steps++
		cb := mon.NewCanary(128, 256, 0x11)
		r := fEncode(cb.Buf, v)
		switch {
		case r.panicked():
			res.Violations = append(res.Violations, fmt.Sprintf("encode-panic/%s: %s: EncodeObject panicked on a populated value of a type that a fresh process rejects: %v [%s]", panicSig(r), label, r.pv, shortStack(r.stack)))
		case r.err == nil:
			res.Violations = append(res.Violations, fmt.Sprintf("encode-accepted: %s: EncodeObject accepted (n=%d) a type that is rejected when used first in a fresh process", label, r.n))
		}
	}
	switch name {
	case "zoo:top-then-top2":
		expectReject("BadTop", reflect.TypeOf(zoo.BadTop{}))
		expectRejectValue("BadTop2", &zoo.BadTop2{B: &zoo.BadB{A: &zoo.BadA{X: &zoo.Bad{U: 1}, B: &zoo.BadB{N: 3}}}})
		expectReject("BadTop2", reflect.TypeOf(zoo.BadTop2{}))
		expectReject("BadB", reflect.TypeOf(zoo.BadB{}))
		expectReject("BadA", reflect.TypeOf(zoo.BadA{}))
	case "zoo:top2-first":
		expectRejectValue("BadTop2", &zoo.BadTop2{B: &zoo.BadB{A: &zoo.BadA{X: &zoo.Bad{U: 1}}}})
		expectReject("BadTop2", reflect.TypeOf(zoo.BadTop2{}))
		expectReject("BadTop", reflect.TypeOf(zoo.BadTop{}))
	case "zoo:badb-after-top":
		expectReject("BadTop", reflect.TypeOf(zoo.BadTop{}))
		expectRejectValue("BadB", &zoo.BadB{A: &zoo.BadA{X: &zoo.Bad{U: 7}}})
		expectReject("BadB", reflect.TypeOf(zoo.BadB{}))
	case "zoo:top3-then-badd":
		expectReject("BadTop3", reflect.TypeOf(zoo.BadTop3{}))
		expectRejectValue("BadD", &zoo.BadD{C: &zoo.BadC{X: &zoo.Bad2{S: []int32{1}}}, L: []*zoo.BadC{{X: &zoo.Bad2{}}}})
		expectReject("BadD", reflect.TypeOf(zoo.BadD{}))
		expectReject("BadC", reflect.TypeOf(zoo.BadC{}))
	case "zoo:size-first":
		res.Steps++
		if sig, msg := checkRejected("size", reflect.TypeOf(zoo.BadTop{}), false); sig != "" {
			res.Violations = append(res.Violations, sig+": BadTop size first: "+msg)
		}
		expectRejectValue("BadTop2", &zoo.BadTop2{B: &zoo.BadB{A: &zoo.BadA{X: &zoo.Bad{U: 1}}}})
		expectReject("BadB", reflect.TypeOf(zoo.BadB{}))
	case "zoo:byvalue-cycle":
		expectReject("CycP", reflect.TypeOf(zoo.CycP{}))
		expectRejectValue("CycP", &zoo.CycP{V: zoo.CycV{L: []*zoo.CycP{{}}, X: &zoo.Bad{U: 1}}})
		expectReject("CycV", reflect.TypeOf(zoo.CycV{}))
		expectRejectValue("CycR", &zoo.CycR{P: &zoo.CycP{V: zoo.CycV{X: &zoo.Bad{}}}})
	case "zoo:byvalue-cycle-r-first":
		expectRejectValue("CycR", &zoo.CycR{P: &zoo.CycP{V: zoo.CycV{L: []*zoo.CycP{{}}, X: &zoo.Bad{}}}})
		expectReject("CycR", reflect.TypeOf(zoo.CycR{}))
		expectReject("CycP", reflect.TypeOf(zoo.CycP{}))
	case "args:encode", "args:decode", "args:size":
		runArgs(name[5:], res)
	}
	// valid zoo types are unaffected
	for _, z := range []interface{}{&zoo.Leaf{A: 1, B: "x"}, &zoo.MutA{ID: 3, B: &zoo.MutB{Name: "n"}}} {
		res.Steps++
		s := gen.Zoo(z)
		want := ref.Encode(s, reflect.ValueOf(z).Elem())
		buf := make([]byte, len(want)+8)
		if r := fEncode(buf, z); r.panicked() || r.err != nil || !sameUpToMapOrder(buf[:r.n], want) {
			res.Violations = append(res.Violations, fmt.Sprintf("valid-affected: valid type %s misbehaves after the scenario: err=%v panic=%v", s.Name, r.err, r.pv))
		}
	}
	json.NewEncoder(os.Stdout).Encode(res)
}

func runArgs(entry string, res *subResult) {
	leaf := &zoo.Leaf{A: 1}
	pleaf := &leaf
	n := 5
	var nilLeaf *zoo.Leaf
	var nilIface interface{}
	sl := []int32{1}
	args := []struct {
		name    string
		v       interface{}
		lenient bool
	}{
		{"int", 5, false}, {"string", "s", false}, {"slice", sl, false}, {"map", map[string]int32{"a": 1}, false},
		{"ptr-to-int", &n, false}, {"ptr-to-slice", &sl, false}, {"ptr-to-ptr-struct", pleaf, false},
		{"nil-interface", nilIface, false}, {"typed-nil-struct-ptr", nilLeaf, true}, {"func", func() {}, false},
		{"chan", make(chan int), false}, {"struct-value", zoo.Leaf{A: 2}, entry != "decode"},
		// typed nil pointers to things that are not structs, or to rejected definitions
		{"nil-ptr-to-int", (*int)(nil), false}, {"nil-ptr-to-ptr-struct", (**zoo.Leaf)(nil), false}, {"nil-ptr-to-slice", (*[]zoo.Leaf)(nil), false},
		{"nil-ptr-to-map", (*map[string]int32)(nil), false}, {"nil-ptr-to-rejected-struct", (*zoo.Bad)(nil), false}, {"nil-ptr-to-rejected-family", (*zoo.BadTop)(nil), false},
		// the same pointer-to-pointer after the struct type has been used through pointers
		{"ptr-to-ptr-struct-after-use", func() interface{} {
			l := &zoo.Leaf{A: 3}
			fEncode(make([]byte, 64), l)
			fDecode([]byte{0}, &zoo.Leaf{})
			fSize(l)
			return &l
		}(), false},
	}
	for _, a := range args {
		res.Steps++
		switch entry {
		case "encode":
			cb := mon.NewCanary(64, 128, 0x22)
			r := fEncode(cb.Buf, a.v)
			switch {
			case r.panicked():
				res.Violations = append(res.Violations, fmt.Sprintf("arg-encode-panic/%s: EncodeObject(%s) panicked: %v", panicSig(r), a.name, r.pv))
			case r.err == nil && !a.lenient:
				res.Violations = append(res.Violations, fmt.Sprintf("arg-encode-accepted: EncodeObject(%s) succeeded (n=%d)", a.name, r.n))
			case r.err != nil:
				if _, ok := cb.Check(0); !ok || r.n != 0 {
					res.Violations = append(res.Violations, fmt.Sprintf("arg-encode-wrote: EncodeObject(%s) failed but n=%d or buffer written", a.name, r.n))
				}
			}
		case "decode":
			r := fDecode([]byte{8, 0, 1, 0, 0, 0, 1, 0}, a.v)
			switch {
			case r.panicked():
				res.Violations = append(res.Violations, fmt.Sprintf("arg-decode-panic/%s: DecodeObject(%s) panicked: %v", panicSig(r), a.name, r.pv))
			case r.err == nil:
				res.Violations = append(res.Violations, fmt.Sprintf("arg-decode-accepted: DecodeObject(%s) succeeded (n=%d)", a.name, r.n))
			case r.n != 0:
				res.Violations = append(res.Violations, fmt.Sprintf("arg-decode-n: DecodeObject(%s) failed with n=%d", a.name, r.n))
			}
		case "size":
			r := fSize(a.v)
			if !r.panicked() {
				if !a.lenient {
					res.Violations = append(res.Violations, fmt.Sprintf("arg-size-returned: EncodedSize(%s) returned %d", a.name, r.n))
				}
			} else if _, isRT := r.pv.(runtime.Error); isRT {
				res.Violations = append(res.Violations, fmt.Sprintf("arg-size-runtime-panic/%s: EncodedSize(%s) panicked with a runtime error: %v", panicSig(r), a.name, r.pv))
			}
		}
	}
	if leaf.A != 1 {
		res.Violations = append(res.Violations, "arg-modified: a rejected argument was modified")
	}
}
