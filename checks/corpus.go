package checks

import (
	"fmt"
	"reflect"

	"verif/gen"
	"verif/ref"
	"verif/harness"
	"verif/schema"
	"verif/zoo"
)

// The encode-side corpus shared by C01, C02, C04, C16, C17, C18: an enumerated
// floor (map matrix, list/set matrix, id classes, requiredness x pointer-ness x
// kind, string lengths, zoo types) followed by random composites.

var mapCounts = []int{-1, 0, 1, 2, 8, 9, 14, 27, 53, 105, 209} // -1 = nil
var listLens = []int{-1, 0, 1, 2, 3, 7, 8, 9, 31, 32, 33, 64, 65}
var scalarListLens = []int{255, 256, 257, 2047, 2048, 2049}
var strLenClasses = []int{0, 1, 2, 3, 7, 8, 15, 16, 17, 255, 256, 257, 2047, 2048, 2049, 5000, 70000}

type corpusCase struct {
	S     *schema.Struct
	V     reflect.Value // pointer to struct
	Class string
	Tags  []string
}

type corpusSection struct {
	name string
	n    int
	mk   func(r *gen.Rand, i int) *corpusCase
}

var fieldKindsForReq = []string{"bool", "i8", "i16", "i32", "i64", "double", "enum", "string", "binary", "*struct", "struct", "map", "set", "list"}

func countTag(n int) string {
	if n < 0 {
		return "nil"
	}
	return fmt.Sprint(n)
}

var encSections = []corpusSection{
	{"mapmatrix", len(gen.KeyForms) * len(gen.ValForms) * len(mapCounts), func(r *gen.Rand, i int) *corpusCase {
		ci := i % len(mapCounts)
		i /= len(mapCounts)
		vf := gen.ValForms[i%len(gen.ValForms)]
		kf := gen.KeyForms[i/len(gen.ValForms)]
		s := gen.MatrixStruct(r, kf, vf)
		cfg := gen.DefaultValCfg()
		cfg.MaxDepth = 2
		cfg.Budget = 60
		n := mapCounts[ci]
		cfg.ForceCount = n
		if n < 0 {
			cfg.ForceCount = 0
		}
		v := gen.NewValue(r, s, cfg)
		f := v.Elem().Field(s.Fields[0].Index)
		if n < 0 {
			f.Set(reflect.Zero(f.Type()))
		} else if f.IsNil() {
			f.Set(reflect.MakeMap(f.Type()))
		}
		return &corpusCase{S: s, V: v, Class: "mapmatrix", Tags: []string{"map:" + kf + ":" + vf, fmt.Sprintf("map:%s:%s@%s", kf, vf, countTag(n)), fmt.Sprintf("maplen=%d", f.Len())}}
	}},
	{"listmatrix", 2 * len(gen.ValForms) * len(listLens), func(r *gen.Rand, i int) *corpusCase {
		li := i % len(listLens)
		i /= len(listLens)
		ef := gen.ValForms[i%len(gen.ValForms)]
		set := i/len(gen.ValForms) == 1
		return listCase(r, set, ef, listLens[li])
	}},
	{"listthresholds", 2 * 7 * len(scalarListLens), func(r *gen.Rand, i int) *corpusCase {
		li := i % len(scalarListLens)
		i /= len(scalarListLens)
		ef := gen.ValForms[i%7]
		return listCase(r, i/7 == 1, ef, scalarListLens[li])
	}},
	{"longlists", 2 * 4 * 3, func(r *gen.Rand, i int) *corpusCase {
		// long flat containers of variable-size elements (element count must not be
		// mistaken for nesting depth or anything else)
		n := []int{1022, 1023, 1500}[i%3]
		i /= 3
		ef := []string{"string", "binary", "*struct", "list"}[i%4]
		return listCase(r, i/4 == 1, ef, n)
	}},
	{"pointershaped", 48, func(r *gen.Rand, i int) *corpusCase {
		// structs that Go keeps directly in the interface word when passed by value: a single
		// pointer or map field, possibly wrapped in by-value single-field structs
		leaf := gen.Zoo(&zoo.Leaf{})
		var inner *schema.Type
		switch i % 4 {
		case 0:
			inner = schema.StructOf(leaf, true)
		case 1:
			inner = schema.MapOf(schema.Scalar(schema.String), schema.Scalar(schema.I32))
		case 2:
			inner = schema.PtrTo(schema.Scalar(schema.I64))
		default:
			inner = schema.MapOf(schema.Scalar(schema.I32), schema.StructOf(leaf, true))
		}
		req := schema.Req(2 * (i / 4 % 2)) // default or optional
		if inner.Ptr && inner.K != schema.StructK {
			req = schema.Optional
		}
		s := gen.Single(uint16(1+r.Intn(9)), req, inner)
		for w := 0; w < i/8%3; w++ { // 0-2 by-value wrappers
			s = gen.Single(uint16(1+r.Intn(9)), schema.Req(r.Intn(2)), schema.StructOf(s, false))
		}
		cfg := gen.DefaultValCfg()
		cfg.MaxDepth = 6
		v := gen.NewValue(r, s, cfg)
		return &corpusCase{S: s, V: v, Class: "pointershaped", Tags: []string{fmt.Sprintf("pointershaped:wrappers=%d:kind=%d", i/8%3, i%4)}}
	}},
	{"idclasses", len(gen.IDClasses) * 3, func(r *gen.Rand, i int) *corpusCase {
		id := gen.IDClasses[i/3]
		req := schema.Req(i % 3)
		kinds := []string{"i32", "string", "list", "i64", "bool", "double"}
		t := gen.FormType(r, kinds[r.Intn(len(kinds))], gen.DefaultTypeCfg(), 2)
		s := &schema.Struct{UnknownIdx: -1, Fields: []*schema.Field{{ID: id, Req: req, T: t}}}
		// neighbours on both sides of the id where possible
		if id > 0 {
			s.Fields = append(s.Fields, &schema.Field{ID: id - 1, Req: schema.Req(r.Intn(3)), T: schema.Scalar(schema.I16)})
		}
		if id < 65535 {
			s.Fields = append(s.Fields, &schema.Field{ID: id + 1, Req: schema.Req(r.Intn(3)), T: schema.Scalar(schema.String)})
		}
		s.Build()
		return &corpusCase{S: s, V: gen.NewValue(r, s, gen.DefaultValCfg()), Class: "idclasses", Tags: []string{fmt.Sprintf("id=%d", id)}}
	}},
	{"reqptrkind", 3 * 2 * len(fieldKindsForReq), func(r *gen.Rand, i int) *corpusCase {
		form := fieldKindsForReq[i%len(fieldKindsForReq)]
		i /= len(fieldKindsForReq)
		ptr := i%2 == 1
		req := schema.Req(i / 2)
		c := gen.DefaultTypeCfg()
		c.MaxDepth = 2
		t := gen.FormType(r, form, c, 1)
		if ptr && req == schema.Optional && (t.IsScalar() || t.K == schema.String || t.K == schema.Binary) {
			t = schema.PtrTo(t)
		}
		s := gen.Single(uint16(1+r.Intn(30)), req, t)
		return &corpusCase{S: s, V: gen.NewValue(r, s, gen.DefaultValCfg()), Class: "reqptrkind", Tags: []string{fmt.Sprintf("field:%s:%s", req, t.Sig())}}
	}},
	{"strlens", len(strLenClasses) * 2, func(r *gen.Rand, i int) *corpusCase {
		l := strLenClasses[i/2]
		k := schema.String
		if i%2 == 1 {
			k = schema.Binary
		}
		s := &schema.Struct{UnknownIdx: -1, Fields: []*schema.Field{
			{ID: 1, Req: schema.Default, T: schema.Scalar(schema.I8)},
			{ID: 2, Req: schema.Default, T: schema.Scalar(k)},
			{ID: 3, Req: schema.Default, T: schema.ListOf(schema.Scalar(schema.I64))},
		}}
		s.Build()
		cfg := gen.DefaultValCfg()
		cfg.ForceStrLen = l
		return &corpusCase{S: s, V: gen.NewValue(r, s, cfg), Class: "strlens", Tags: []string{fmt.Sprintf("strlen:%v=%d", k, l)}}
	}},
	{"twins", 240, func(r *gen.Rand, i int) *corpusCase {
		// the same Go type under two annotations that differ only in one
		// list<->set choice, 0-3 container levels down, used in one process
		// (and one struct): descriptor caches keyed too coarsely confuse them
		if i%3 == 2 {
			// the same named int64 Go type as enum (i32 on the wire) and as plain i64
			named := zoo.Enums[r.Intn(len(zoo.Enums))]
			wrap := func(t *schema.Type, w int) *schema.Type {
				switch w {
				case 1:
					return schema.ListOf(t)
				case 2:
					return schema.MapOf(schema.Scalar(schema.String), t)
				case 3:
					return schema.MapOf(t, schema.Scalar(schema.I16))
				case 4:
					return schema.SetOf(schema.ListOf(t))
				}
				return t
			}
			w := r.Intn(5)
			a, b := wrap(schema.EnumOf(named), w), wrap(schema.NamedI64(named), w)
			if r.Bool() {
				a, b = b, a
			}
			s := &schema.Struct{UnknownIdx: -1, Fields: []*schema.Field{
				{ID: uint16(1 + r.Intn(5)), Req: schema.Default, T: a},
				{ID: uint16(10 + r.Intn(5)), Req: schema.Default, T: b},
			}}
			if r.Bool() {
				s.GoOrder = []int{1, 0}
			}
			s.Build()
			return &corpusCase{S: s, V: gen.NewValue(r, s, gen.DefaultValCfg()), Class: "twins", Tags: []string{fmt.Sprintf("twin:enum-vs-i64:wrap=%d", w)}}
		}
		depth := i % 4
		leaf := []schema.Kind{schema.I32, schema.I64, schema.String, schema.I8, schema.Double}[r.Intn(5)]
		var build func(level, flipAt int, flip bool) *schema.Type
		wrappers := make([]int, depth+1)
		for k := range wrappers {
			wrappers[k] = r.Intn(4)
		}
		build = func(level, flipAt int, flip bool) *schema.Type {
			if level > depth {
				return schema.Scalar(leaf)
			}
			inner := build(level+1, flipAt, flip)
			w := wrappers[level]
			if level == flipAt {
				if flip {
					return schema.SetOf(inner)
				}
				return schema.ListOf(inner)
			}
			switch w {
			case 0:
				return schema.ListOf(inner)
			case 1:
				return schema.SetOf(inner)
			case 2:
				return schema.MapOf(schema.Scalar(schema.I32), inner)
			}
			return schema.MapOf(schema.Scalar(schema.String), inner)
		}
		flipAt := depth - (i/4)%(depth+1)
		a, b := build(0, flipAt, false), build(0, flipAt, true)
		if r.Bool() {
			a, b = b, a
		}
		s := &schema.Struct{UnknownIdx: -1, Fields: []*schema.Field{
			{ID: uint16(1 + r.Intn(5)), Req: schema.Default, T: a},
			{ID: uint16(10 + r.Intn(5)), Req: schema.Default, T: b},
		}}
		if r.Bool() {
			s.GoOrder = []int{1, 0}
		}
		s.Build()
		cfg := gen.DefaultValCfg()
		cfg.Budget = 40
		v := gen.NewValue(r, s, cfg)
		// make sure the flipped level is reached by at least one element
		return &corpusCase{S: s, V: v, Class: "twins", Tags: []string{fmt.Sprintf("twin:depth=%d:flip=%d", depth, flipAt)}}
	}},
	{"defaults", len(c10Zoo) * 8, func(r *gen.Rand, i int) *corpusCase {
		// types with declared defaults, optional fields driven to their defaults / zero / specials;
		// in every other case the tail of the top-level struct is at its defaults (nothing is
		// emitted after the last field that differs)
		s := gen.Zoo(c10Zoo[i/8])
		cfg := gen.DefaultValCfg()
		cfg.MaxDepth = 1 + i%3
		v := gen.NewValue(r, s, cfg)
		driveDefaults(r, s, v.Elem(), 0)
		if i%2 == 1 {
			if d := ref.Defaults(s); d.IsValid() {
				from := r.Intn(len(s.Fields) + 1)
				for k, f := range s.Fields {
					if k >= from && f.Req == schema.Optional && !f.T.Ptr && (f.T.IsScalar() || f.T.K == schema.String) {
						v.Elem().Field(f.Index).Set(d.Field(f.Index))
					}
				}
			}
		}
		return &corpusCase{S: s, V: v, Class: "defaults", Tags: []string{"defaults:" + s.Name}}
	}},
	{"zoo", len(zoo.Valid) * 6, func(r *gen.Rand, i int) *corpusCase {
		z := zoo.Valid[i/6]
		s := gen.Zoo(z)
		cfg := gen.DefaultValCfg()
		cfg.MaxDepth = 1 + (i%6)*2
		cfg.Big = i%6 >= 3
		return &corpusCase{S: s, V: gen.NewValue(r, s, cfg), Class: "zoo", Tags: []string{"zoo:" + s.Name}}
	}},
}

func listCase(r *gen.Rand, set bool, ef string, n int) *corpusCase {
	s := gen.ListStruct(r, set, ef)
	cfg := gen.DefaultValCfg()
	cfg.MaxDepth = 2
	cfg.Budget = 80
	cfg.ForceCount = n
	if n < 0 {
		cfg.ForceCount = 0
	}
	v := gen.NewValue(r, s, cfg)
	f := v.Elem().Field(s.Fields[0].Index)
	if n < 0 {
		f.Set(reflect.Zero(f.Type()))
	} else if f.IsNil() {
		f.Set(reflect.MakeSlice(f.Type(), 0, 0))
	}
	kind := "list"
	if set {
		kind = "set"
	}
	return &corpusCase{S: s, V: v, Class: "listmatrix", Tags: []string{kind + ":" + ef, fmt.Sprintf("%s:%s@%s", kind, ef, countTag(n))}}
}

var encEnumerated = func() int {
	n := 0
	for _, s := range encSections {
		n += s.n
	}
	return n
}()

// encCase returns case idx of the encode-side corpus.
func encCase(c *harness.Ctx, r *gen.Rand, idx int) *corpusCase {
	i := idx
	for _, s := range encSections {
		if i < s.n {
			return s.mk(r, i)
		}
		i -= s.n
	}
	// random composite
	tc := gen.DefaultTypeCfg()
	tc.BigIDs = r.Chance(1, 4)
	s := gen.RandomStruct(r, tc, 0)
	vc := gen.DefaultValCfg()
	vc.Big = r.Chance(1, 5)
	return &corpusCase{S: s, V: gen.NewValue(r, s, vc), Class: "random"}
}

// tagCase records the case's tags and shape on the context.
func tagCase(c *harness.Ctx, cc *corpusCase) {
	for _, t := range cc.Tags {
		c.Tag(t)
	}
	c.Tag("class:" + cc.Class)
	c.Shape(cc.S.Sig())
}
