package checks

import (
	"encoding/binary"
	"fmt"
	"reflect"
	"runtime/metrics"

	"verif/gen"
	"verif/harness"
	"verif/mon"
	"verif/ref"
	"verif/schema"
	"verif/wire"
)

func init() {
	register(&Check{
		ID:   "C05",
		Rule: "case = one seed (destination type T, valid message m) drawn from the C01 corpus; per seed every prefix of m (read by T, by a reader that knows no field at all, and by an evolved older/newer schema of T, so that cuts fall inside skipped values too), every structural byte located by the schema-less parser (type codes, ids, lengths, counts, STOPs) overwritten with boundary values, all 256 type codes at three type-code sites, well-formed fields with edge ids (0, 1, max+1, 32767, 32768, 65535) injected into every struct instance, random single-byte corruptions, splices with a second message, trailing junk and random strings are decoded from a buffer right-aligned against a guard page; oracle per input: no panic/fault, success iff the reference decoder accepts (either for LENIENT encodings), same n, allocation <= 64KiB+16*(maxElem+16)*len; distinct = distinct (type shape) ; non-trivial = at least 10 inputs rejected and 1 accepted",
		Plan: func(tier string) []BuildPlan {
			if tier == "thorough" {
				return []BuildPlan{{"plain", 1200}, {"checkptr", 600}, {"asan", 300}}
			}
			return []BuildPlan{{"plain", 64}, {"checkptr", 32}, {"asan", 16}}
		},
		Run: runC05,
		Assumptions: []string{
			"'time proportional to the input' is decided by a per-seed CPU-time watchdog (120 s for a few thousand decodes of inputs under 100 KiB), not by a complexity proof",
			"the allocation bound is checked on plain/checkptr builds only (sanitizer builds change allocation)",
		},
	})
}

func allocBytes() uint64 {
	s := []metrics.Sample{{Name: "/gc/heap/allocs:bytes"}}
	metrics.Read(s)
	return s[0].Value.Uint64()
}

// maxElemSize is the largest Go size of any value the decoder may allocate per
// wire element of type t.
func maxElemSize(t *schema.Type, seen map[*schema.Struct]bool) int {
	m := int(t.Go().Size())
	switch t.K {
	case schema.StructK:
		if sz := int(t.S.Go.Size()); sz > m {
			m = sz
		}
		if !seen[t.S] {
			seen[t.S] = true
			for _, f := range t.S.Fields {
				if x := maxElemSize(f.T, seen); x > m {
					m = x
				}
			}
		}
	case schema.List, schema.Set:
		if x := maxElemSize(t.Elem, seen); x > m {
			m = x
		}
	case schema.Map:
		if x := maxElemSize(t.Key, seen); x > m {
			m = x
		}
		if x := maxElemSize(t.Elem, seen); x > m {
			m = x
		}
	}
	return m
}

type decodeMonitor struct {
	c        *harness.Ctx
	s        *schema.Struct
	sig      string
	elem     int
	region   *mon.Region
	regionN  int
	meter    bool
	accepted int
	rejected int
	lenient  int
	gray     int
	inputs   int
	stop     bool
}

func newDecodeMonitor(c *harness.Ctx, s *schema.Struct, maxLen int) *decodeMonitor {
	m := &decodeMonitor{c: c, s: s, sig: structSig(s)}
	m.elem = maxElemSize(schema.StructOf(s, false), map[*schema.Struct]bool{})
	m.region = mon.NewRegion(maxLen + 16)
	m.regionN = maxLen + 16
	m.meter = c.Build == "plain" || c.Build == "checkptr"
	// first use of a type builds its descriptors (allocation unrelated to the
	// input): do it before metering
	fDecode([]byte{0}, reflect.New(s.Go).Interface())
	return m
}

func (m *decodeMonitor) free() { m.region.Free() }

// try decodes one input under all C05 oracles. label identifies the mutation.
func (m *decodeMonitor) try(label string, in []byte) {
	if m.stop {
		return
	}
	c := m.c
	m.inputs++
	if len(in) > m.regionN {
		m.region.Free()
		m.region = mon.NewRegion(len(in) + 16)
		m.regionN = len(in) + 16
	}
	m.region.ReadWrite()
	g := m.region.Right(len(in))
	copy(g, in)
	m.region.ReadOnly() // the decoder must not write to its input either: a write faults
	// reference verdict
	rd := reflect.New(m.s.Go)
	rn, info, rerr := ref.Decode(m.s, in, rd.Elem())
	c.Step("%s len=%d in=%s", label, len(in), hexClip(in))
	dst := reflect.New(m.s.Go)
	a0 := allocBytes()
	dr := fDecode(g, dst.Interface())
	a1 := allocBytes()
	if dr.panicked() {
		c.Violation("panic", "C05/panic/"+panicSig(dr), "DecodeObject panicked on %s (len %d): %v [%s] input=%s", label, len(in), dr.pv, shortStack(dr.stack), hexClip(in))
		m.stop = true // one per seed is enough; the rest of the seed would repeat it
		return
	}
	if m.meter {
		bound := uint64(64<<10) + 16*uint64(m.elem+16)*uint64(len(in))
		if a1-a0 > bound {
			// one-time effects (sync.Pool New functions, error values built on
			// first use) are not "out of proportion to the input": a real
			// blow-up repeats on every call, so take the minimum of 3 more
			for k := 0; k < 3 && a1-a0 > bound; k++ {
				d2 := reflect.New(m.s.Go)
				a0 = allocBytes()
				fDecode(g, d2.Interface())
				a1 = allocBytes()
			}
		}
		if a1-a0 > bound {
			c.Violation("alloc", "C05/alloc-blowup/"+m.sig, "DecodeObject allocated %d bytes for a %d-byte input (bound %d) on %s: input=%s", a1-a0, len(in), bound, label, hexClip(in))
			m.stop = true
			return
		}
	}
	gray := info.MaxLevel > 48
	switch {
	case rerr == nil && !info.Lenient && !gray:
		m.accepted++
		if dr.err != nil {
			c.Violation("reject-wellformed", "C05/rejects-wellformed/"+m.sig, "DecodeObject rejected a well-formed message (%s): %v input=%s", label, dr.err, hexClip(in))
			m.stop = true
		} else if dr.n != rn {
			c.Violation("n", "C05/n/"+m.sig, "DecodeObject returned n=%d, message ends at %d (%s) input=%s", dr.n, rn, label, hexClip(in))
			m.stop = true
		}
	case rerr != nil && !info.Lenient && rerr.Class != ref.TooDeep:
		m.rejected++
		if dr.err == nil {
			c.Violation("accept-malformed", "C05/accepts-malformed/"+rerr.Class.String()+"/"+m.sig, "DecodeObject accepted (n=%d) an input the reference rejects as %v at %d (%s) input=%s", dr.n, rerr.Class, rerr.Off, label, hexClip(in))
			m.stop = true
		}
	default:
		if gray {
			m.gray++
		} else {
			m.lenient++
		}
		if dr.err == nil && rerr == nil && dr.n != rn {
			c.Violation("n", "C05/n/"+m.sig, "DecodeObject returned n=%d, message ends at %d (%s, lenient) input=%s", dr.n, rn, label, hexClip(in))
			m.stop = true
		}
	}
}

var corruptTypeCodes = []byte{0, 1, 2, 3, 4, 5, 6, 7, 8, 9, 10, 11, 12, 13, 14, 15, 16, 17, 0x7f, 0x80, 0x82, 0x8b, 0x8c, 0xfd, 0xfe, 0xff}

func u32(v int) []byte {
	var b [4]byte
	binary.BigEndian.PutUint32(b[:], uint32(v))
	return b[:]
}

// structuralMutations yields corrupted copies of m at the parser's sites.
func structuralMutations(r *gen.Rand, m []byte, sites []wire.Site, max int, emit func(label string, in []byte)) {
	type mut struct {
		off int
		val []byte
		lab string
	}
	var muts []mut
	for _, s := range sites {
		switch s.Kind {
		case "ftype", "etype", "ktype", "vtype", "stop":
			for _, tc := range corruptTypeCodes {
				if m[s.Off] != tc {
					muts = append(muts, mut{s.Off, []byte{tc}, fmt.Sprintf("%s@%d=%d", s.Kind, s.Off, tc)})
				}
			}
		case "fid":
			cur := int(binary.BigEndian.Uint16(m[s.Off:]))
			for _, v := range []int{cur + 1, cur - 1, 0, 0xffff, r.Intn(65536)} {
				v &= 0xffff
				muts = append(muts, mut{s.Off, []byte{byte(v >> 8), byte(v)}, fmt.Sprintf("fid@%d=%d", s.Off, v)})
			}
		case "strlen", "count":
			cur := int(int32(binary.BigEndian.Uint32(m[s.Off:])))
			remain := len(m) - s.Off - 4
			for _, v := range []int{-1, 0x7fffffff, -0x80000000, remain, remain + 1, remain - 1, cur + 1, cur - 1, 0, remain/2 + 1, remain/5 + 1, remain/9 + 1, 1 << 20, 1 << 28, 0x01000000, 256} {
				if v != cur {
					muts = append(muts, mut{s.Off, u32(v), fmt.Sprintf("%s@%d=%d", s.Kind, s.Off, v)})
				}
			}
		}
	}
	idx := r.Perm(len(muts))
	if len(idx) > max {
		idx = idx[:max]
	}
	for _, i := range idx {
		mu := muts[i]
		in := append([]byte(nil), m...)
		copy(in[mu.off:], mu.val)
		emit(mu.lab, in)
	}
}

func runC05(c *harness.Ctx, idx int) {
	r := c.Rand(idx)
	// seeds are spread over the whole encode-side corpus
	ci := r.Intn(encEnumerated + 4000)
	cc := encCase(c, r, ci)
	if idx%8 == 7 {
		// field-less structs at every position (their descriptors have no field index at all)
		empty := &schema.Struct{UnknownIdx: -1, HasUnknown: r.Bool()}
		empty.Build()
		es := &schema.Struct{UnknownIdx: -1, Fields: []*schema.Field{
			{ID: 1, Req: schema.Optional, T: schema.StructOf(empty, true)},
			{ID: 2, Req: schema.Default, T: schema.ListOf(schema.StructOf(empty, true))},
			{ID: 3, Req: schema.Default, T: schema.MapOf(schema.Scalar(schema.I32), schema.StructOf(empty, false))},
			{ID: 4, Req: schema.Default, T: schema.StructOf(empty, false)},
		}}
		es.Build()
		if r.Bool() {
			es = empty
		}
		cc = &corpusCase{S: es, V: gen.NewValue(r, es, gen.DefaultValCfg()), Class: "fieldless"}
	}
	s := cc.S
	msg := ref.EncodeWith(s, cc.V.Elem(), &ref.EncodeOpts{Order: r.Perm})
	c.Describe("seed corpus#%d %s type=%s msg=%s", ci, cc.Class, s.Describe(), hexClip(msg))
	c.Hint(structSig(s))
	c.Tag("class:" + cc.Class)
	c.Shape(s.Sig())
	if len(msg) > 20000 {
		// keep the number of inputs per seed bounded; large messages are covered by C01/C06
		msg = ref.Encode(s, reflect.New(s.Go).Elem())
		if !wellformedFor(s, msg) {
			c.Tag("skipped:large-seed-with-required-fields")
			return
		}
	}
	m := newDecodeMonitor(c, s, len(msg)+64)
	defer m.free()

	m.try("valid", msg)
	m.try("valid+junk", append(append([]byte(nil), msg...), r.Bytes(1+r.Intn(40))...))
	m.try("valid+stopjunk", append(append([]byte(nil), msg...), 0, 0, 0))
	// every prefix
	L := len(msg)
	if L <= 700 {
		for k := 0; k < L; k++ {
			m.try(fmt.Sprintf("prefix[:%d]", k), msg[:k])
		}
	} else {
		for k := 0; k < 250; k++ {
			m.try(fmt.Sprintf("prefix[:%d]", k), msg[:k])
		}
		for k := L - 250; k < L; k++ {
			m.try(fmt.Sprintf("prefix[:%d]", k), msg[:k])
		}
		for j := 0; j < 200; j++ {
			k := r.Intn(L)
			m.try(fmt.Sprintf("prefix[:%d]", k), msg[:k])
		}
	}
	// the same prefixes read by readers that know less than the writer: every field the
	// reader does not know (or knows under another type) goes through the skip path, and a
	// cut inside a skipped value must still end in an error. Readers: one that knows no
	// field at all (with or without a holder), and an evolved (older/newer) schema.
	{
		empty := &schema.Struct{UnknownIdx: -1, HasUnknown: idx%2 == 0}
		empty.Build()
		readers := []*schema.Struct{empty}
		if len(s.Fields) > 0 {
			readers = append(readers, gen.Evolve(r, s, &gen.EvolveCfg{}, 0))
		}
		for ri, t := range readers {
			mr := newDecodeMonitor(c, t, len(msg)+64)
			mr.try(fmt.Sprintf("reader%d:valid", ri), msg)
			step := 1
			if L > 1500 {
				step = L / 1500
			}
			for k := 0; k < L; k += step {
				mr.try(fmt.Sprintf("reader%d:prefix[:%d]", ri, k), msg[:k])
			}
			m.inputs += mr.inputs
			m.accepted += mr.accepted
			m.rejected += mr.rejected
			m.lenient += mr.lenient
			m.gray += mr.gray
			mr.free()
		}
		c.Count("older_reader_inputs", 1)
	}
	// structural corruptions
	pr := wire.Parse(msg)
	structuralMutations(r, msg, pr.Sites, 1500, m.try)
	// every possible type code at a few type-code sites
	var tsites []wire.Site
	for _, st := range pr.Sites {
		if st.Kind == "ftype" || st.Kind == "etype" || st.Kind == "ktype" || st.Kind == "vtype" {
			tsites = append(tsites, st)
		}
	}
	for k := 0; k < 3 && len(tsites) > 0; k++ {
		st := tsites[r.Intn(len(tsites))]
		for code := 0; code < 256; code++ {
			if byte(code) == msg[st.Off] {
				continue
			}
			in := append([]byte(nil), msg...)
			in[st.Off] = byte(code)
			m.try(fmt.Sprintf("%s@%d=all:%d", st.Kind, st.Off, code), in)
		}
	}
	// well-formed unknown fields injected at the end of every struct instance (ids at
	// the edges: 0, 1, just above the largest declared id, 32767/32768, 65535)
	maxID := 0
	for _, f := range s.Fields {
		if int(f.ID) > maxID {
			maxID = int(f.ID)
		}
	}
	nstop := 0
	for _, st := range pr.Sites {
		if st.Kind != "stop" {
			continue
		}
		if nstop++; nstop > 30 {
			break
		}
		for _, id := range []int{0, 1, maxID + 1, 32767, 32768, 65535} {
			id &= 0xffff
			var fld []byte
			fld = gen.AppendRandomField(r, fld, uint16(id), 1)
			in := append(append(append([]byte(nil), msg[:st.Off]...), fld...), msg[st.Off:]...)
			m.try(fmt.Sprintf("inject-id-%d@%d", id, st.Off), in)
		}
	}
	// random single-byte corruptions
	for j := 0; j < 150 && L > 0; j++ {
		in := append([]byte(nil), msg...)
		off := r.Intn(L)
		in[off] ^= byte(1 + r.Intn(255))
		m.try(fmt.Sprintf("flip@%d", off), in)
	}
	// splices with a second message of the same type
	v2 := gen.NewValue(r, s, gen.DefaultValCfg())
	msg2 := ref.Encode(s, v2.Elem())
	for j := 0; j < 40 && L > 0; j++ {
		i, k := r.Intn(L), r.Intn(len(msg2))
		in := append(append([]byte(nil), msg[:i]...), msg2[k:]...)
		if len(in) > 30000 {
			continue
		}
		m.try(fmt.Sprintf("splice[%d:]+[%d:]", i, k), in)
	}
	// random strings biased towards plausible headers
	for j := 0; j < 120; j++ {
		n := r.Intn(48)
		in := r.Bytes(n)
		if n > 3 && r.Bool() && len(s.Fields) > 0 {
			f := s.Fields[r.Intn(len(s.Fields))]
			in[0] = f.T.WT()
			in[1], in[2] = byte(f.ID>>8), byte(f.ID)
		}
		m.try("random", in)
	}
	c.Count("inputs", int64(m.inputs))
	c.Count("_evaluations", int64(m.inputs))
	c.Count("accepted", int64(m.accepted))
	c.Count("rejected", int64(m.rejected))
	c.Count("lenient", int64(m.lenient))
	c.Count("depth_gray", int64(m.gray))
	if m.rejected >= 10 && m.accepted >= 1 {
		c.NonTrivial()
	}
	c.Sample(map[string]interface{}{"type": s.Describe(), "valid_message": hexClip(msg), "inputs": m.inputs, "accepted": m.accepted, "rejected": m.rejected})
}

func wellformedFor(s *schema.Struct, msg []byte) bool {
	_, _, err := ref.Decode(s, msg, reflect.New(s.Go).Elem())
	return err == nil
}
