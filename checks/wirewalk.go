package checks

import (
	"fmt"
	"reflect"

	"verif/ref"
	"verif/schema"
	"verif/wire"
)

// walkWire visits every struct instance of a parsed message that schema s
// recognises (known id, matching wire type, matching element type codes).
func walkWire(s *schema.Struct, n *wire.Node, path string, fn func(s *schema.Struct, n *wire.Node, path string)) {
	fn(s, n, path)
	for _, fnode := range n.Fields {
		f := s.FieldByID(fnode.ID)
		if f == nil || f.T.WT() != fnode.T {
			continue
		}
		walkWireValue(f.T, fnode.V, fmt.Sprintf("%s.%d", path, f.ID), fn)
	}
}

func walkWireValue(t *schema.Type, n *wire.Node, path string, fn func(s *schema.Struct, n *wire.Node, path string)) {
	switch t.K {
	case schema.StructK:
		walkWire(t.S, n, path, fn)
	case schema.List, schema.Set:
		if n.ET != t.Elem.WT() {
			return
		}
		for i, e := range n.Elems {
			walkWireValue(t.Elem, e, fmt.Sprintf("%s[%d]", path, i), fn)
		}
	case schema.Map:
		if n.KT != t.Key.WT() || n.ET != t.Elem.WT() {
			return
		}
		for i := 0; i+1 < len(n.Elems); i += 2 {
			walkWireValue(t.Key, n.Elems[i], fmt.Sprintf("%s{k%d}", path, i/2), fn)
			walkWireValue(t.Elem, n.Elems[i+1], fmt.Sprintf("%s{v%d}", path, i/2), fn)
		}
	}
}

// fieldNode returns the last occurrence of field f (declared wire type) in a
// struct node, or nil.
func fieldNode(n *wire.Node, f *schema.Field) *wire.FieldNode {
	var r *wire.FieldNode
	for _, fn := range n.Fields {
		if fn.ID == f.ID && fn.T == f.T.WT() {
			r = fn
		}
	}
	return r
}

// missingRequired lists "path:GoFieldName" of every required field that some
// recognised struct instance of the message lacks.
func missingRequired(s *schema.Struct, root *wire.Node) (names map[string]bool) {
	names = map[string]bool{}
	walkWire(s, root, "", func(s *schema.Struct, n *wire.Node, path string) {
		for _, f := range s.Fields {
			if f.Req == schema.Required && fieldNode(n, f) == nil {
				names[f.Name] = true
			}
		}
	})
	return
}

// walkUnaligned counts map entries that walkBoth could not align (equal-valued
// keys, NaN keys); callers that need a complete walk reset and read it.
var walkUnaligned int

// walkBoth visits every struct instance present both in the Go value v (a
// struct of schema s) and in the parsed message, aligned through lists by index
// and through maps with scalar/string keys by the key's wire bytes.
func walkBoth(s *schema.Struct, v reflect.Value, n *wire.Node, msg []byte, path string, fn func(s *schema.Struct, v reflect.Value, n *wire.Node, path string)) {
	fn(s, v, n, path)
	for _, f := range s.Fields {
		fnode := fieldNode(n, f)
		if fnode == nil {
			continue
		}
		walkBothValue(f.T, v.Field(f.Index), fnode.V, msg, fmt.Sprintf("%s.%d", path, f.ID), fn)
	}
}

func walkBothValue(t *schema.Type, v reflect.Value, n *wire.Node, msg []byte, path string, fn func(s *schema.Struct, v reflect.Value, n *wire.Node, path string)) {
	if t.Ptr {
		if v.IsNil() {
			return
		}
		v = v.Elem()
	}
	switch t.K {
	case schema.StructK:
		walkBoth(t.S, v, n, msg, path, fn)
	case schema.List, schema.Set:
		if n.ET != t.Elem.WT() || n.Elems == nil {
			return
		}
		for i := 0; i < v.Len() && i < len(n.Elems); i++ {
			walkBothValue(t.Elem, v.Index(i), n.Elems[i], msg, fmt.Sprintf("%s[%d]", path, i), fn)
		}
	case schema.Map:
		if n.KT != t.Key.WT() || n.ET != t.Elem.WT() {
			return
		}
		if t.Key.Ptr {
			// pointer-to-struct keys: a wire entry is aligned with the Go entry whose key
			// has the same reference encoding up to field and map-entry order (a nil key is
			// the empty struct on the wire, a zero-valued key is not). Keys that occur
			// more than once under that comparison cannot be told apart and stay unaligned.
			type ent struct {
				k, v  reflect.Value
				canon string
			}
			var ents []*ent
			freq := map[string]int{}
			it := v.MapRange()
			for it.Next() {
				cs, err := wire.CanonSorted(ref.ValueBytes(t.Key, it.Key()))
				if err != nil {
					walkUnaligned++
					continue
				}
				ents = append(ents, &ent{k: it.Key(), v: it.Value(), canon: string(cs)})
				freq[string(cs)]++
			}
			for i := 0; i+1 < len(n.Elems); i += 2 {
				kn := n.Elems[i]
				cs, err := wire.CanonSorted(msg[kn.Start:kn.End])
				matched := false
				if err == nil && freq[string(cs)] == 1 {
					for _, e := range ents {
						if e.canon == string(cs) {
							matched = true
							if !e.k.IsNil() {
								walkBoth(t.Key.S, e.k.Elem(), kn, msg, fmt.Sprintf("%s{key%d}", path, i/2), fn)
							}
							walkBothValue(t.Elem, e.v, n.Elems[i+1], msg, fmt.Sprintf("%s{val%d}", path, i/2), fn)
							break
						}
					}
				}
				if !matched {
					walkUnaligned++
				}
			}
			return
		}
		if t.Elem.K != schema.StructK && t.Elem.K != schema.List && t.Elem.K != schema.Set && t.Elem.K != schema.Map {
			return
		}
		byKey := map[string]reflect.Value{}
		dup := map[string]int{}
		it := v.MapRange()
		for it.Next() {
			kb := string(ref.ValueBytes(t.Key, it.Key()))
			byKey[kb] = it.Value()
			dup[kb]++ // NaN keys: several entries with the same key bytes cannot be told apart
		}
		for i := 0; i+1 < len(n.Elems); i += 2 {
			k := n.Elems[i]
			mv, ok := byKey[string(msg[k.Start:k.End])]
			if !ok || dup[string(msg[k.Start:k.End])] != 1 {
				walkUnaligned++
			}
			if ok && dup[string(msg[k.Start:k.End])] == 1 {
				walkBothValue(t.Elem, mv, n.Elems[i+1], msg, fmt.Sprintf("%s{%x}", path, msg[k.Start:k.End]), fn)
			}
		}
	}
}
