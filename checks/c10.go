package checks

import (
	"bytes"
	"fmt"
	"math"
	"reflect"
	"sort"

	"verif/gen"
	"verif/harness"
	"verif/ref"
	"verif/schema"
	"verif/wire"
	"verif/zoo"
)

func init() {
	register(&Check{
		ID:   "C10",
		Rule: "case = (type with optional fields - the static default-declaring zoo types Defs/Defs2 nested at field, list-element and map-value position, the control type NoDefs without an initialiser, and random dynamic types -, a value whose optional fields are driven to {equal to the declared default, zero, other}, incl. -0.0, NaN, empty vs nil binary). Encoder oracle: for every struct instance of the output the set of field ids present equals the rule of C10 (equality with the default is Go ==: -0.0 equals a 0.0 default and is omitted, NaN never equals a NaN default and is written). Decoder oracle: a message with a random subset of fields omitted at every level is decoded into a junk-pre-filled top-level destination and compared with the reference decoder (created structs get defaults first, top level never re-initialised, optional pointer nil-ness == presence). distinct = distinct (type shape, present-id set of the top-level struct); non-trivial = some optional field was omitted and some written",
		Plan: func(tier string) []BuildPlan {
			if tier == "thorough" {
				return []BuildPlan{{"plain", 1200000}, {"checkptr", 300000}}
			}
			return []BuildPlan{{"plain", 8000}, {"checkptr", 3000}}
		},
		Run: runC10,
	})
}

var c10Zoo = []interface{}{&zoo.Defs{}, &zoo.Defs2{}, &zoo.NoDefs{}, &zoo.Defs{}, &zoo.Defs2{}, &zoo.Defs3{}, &zoo.Defs3{}, &zoo.DefsNC{}, &zoo.DefsNCHolder{}, &zoo.DefsNeg{}, &zoo.DefsNeg{}}

// driveDefaults rewrites optional scalar/string/binary fields of every struct
// reachable from v towards the interesting cells: equal to default, zero, -0.0,
// NaN, empty-vs-nil.
func driveDefaults(r *gen.Rand, s *schema.Struct, v reflect.Value, depth int) {
	d := ref.Defaults(s)
	for _, f := range s.Fields {
		fv := v.Field(f.Index)
		t := f.T
		if f.Req == schema.Optional && !t.Ptr && (t.IsScalar() || t.K == schema.String || t.K == schema.Binary) {
			switch r.Intn(5) {
			case 0: // equal to the declared default
				if d.IsValid() {
					dv := d.Field(f.Index)
					if t.K == schema.Binary && !dv.IsNil() {
						fv.SetBytes(append([]byte{}, dv.Bytes()...))
					} else {
						fv.Set(dv)
					}
				}
			case 1: // zero
				fv.Set(reflect.Zero(fv.Type()))
			case 2: // special
				switch t.K {
				case schema.Double:
					fv.SetFloat([]float64{math.Copysign(0, -1), math.NaN(), math.Float64frombits(0x7ff8000000000001), 0}[r.Intn(4)])
				case schema.Binary:
					if r.Bool() {
						fv.SetBytes([]byte{})
					} else {
						fv.Set(reflect.Zero(fv.Type()))
					}
				case schema.String:
					fv.SetString("")
					if d.IsValid() && r.Bool() {
						// a value that differs from the declared default but lives in the default's
						// own storage (a prefix re-sliced from it, down to the empty prefix)
						if ds := d.Field(f.Index).String(); len(ds) > 0 {
							fv.SetString(ds[:r.Intn(len(ds))])
						}
					}
				}
			}
			continue
		}
		if depth > 3 {
			continue
		}
		driveValue(r, t, fv, depth)
	}
}

func driveValue(r *gen.Rand, t *schema.Type, v reflect.Value, depth int) {
	if t.Ptr {
		if v.IsNil() {
			return
		}
		v = v.Elem()
	}
	switch t.K {
	case schema.StructK:
		if v.CanSet() {
			driveDefaults(r, t.S, v, depth+1)
		}
	case schema.List, schema.Set:
		if t.Elem.K == schema.StructK {
			for i := 0; i < v.Len(); i++ {
				driveValue(r, t.Elem, v.Index(i), depth+1)
			}
		}
	case schema.Map:
		if t.Elem.K == schema.StructK && t.Elem.Ptr {
			for _, k := range sortedKeys(t, v) { // deterministic order: the PRNG stream must not depend on map iteration
				if mv := v.MapIndex(k); mv.IsValid() { // (a NaN key cannot be looked up)
					driveValue(r, t.Elem, mv, depth+1)
				}
			}
		} else if t.Elem.K == schema.StructK {
			// by-value map values are not addressable: rewrite through a copy
			for _, k := range sortedKeys(t, v) {
				mv := v.MapIndex(k)
				if !mv.IsValid() {
					continue
				}
				cp := reflect.New(t.Elem.S.Go).Elem()
				cp.Set(mv)
				driveDefaults(r, t.Elem.S, cp, depth+1)
				v.SetMapIndex(k, cp)
			}
		}
	}
}

func runC10(c *harness.Ctx, idx int) {
	r := c.Rand(idx)
	var s *schema.Struct
	class := ""
	switch {
	case idx%3 == 0:
		s = gen.Zoo(c10Zoo[r.Intn(len(c10Zoo))])
		class = "zoo:" + s.Name
	case idx%3 == 1:
		// dynamic wrapper nesting a defaults type at field / list element / map value position
		inner := gen.Zoo(c10Zoo[r.Intn(len(c10Zoo))])
		s = &schema.Struct{UnknownIdx: -1, Fields: []*schema.Field{
			{ID: 1, Req: schema.Req(r.Intn(3)), T: schema.StructOf(inner, r.Bool())},
			{ID: 2, Req: schema.Req(r.Intn(3)), T: schema.ListOf(schema.StructOf(inner, r.Bool()))},
			{ID: 3, Req: schema.Req(r.Intn(3)), T: schema.MapOf(schema.Scalar(schema.I32), schema.StructOf(inner, r.Bool()))},
			{ID: 4, Req: schema.Optional, T: schema.PtrTo(schema.Scalar(schema.I64))},
			{ID: 5, Req: schema.Optional, T: schema.Scalar(schema.Double)},
		}}
		s.Build()
		class = "wrap:" + inner.Name
	default:
		tc := gen.DefaultTypeCfg()
		tc.BigIDs = false
		s = gen.RandomStruct(r, tc, 0)
		class = "random"
	}
	vc := gen.DefaultValCfg()
	vc.MaxDepth = 3
	vc.Budget = 60
	v := gen.NewValue(r, s, vc)
	driveDefaults(r, s, v.Elem(), 0)
	want := ref.Encode(s, v.Elem())
	c.Describe("%s type=%s ref=%s", class, s.Describe(), hexClip(want))
	c.Hint(structSig(s))
	c.Tag("class:" + class)
	sig := structSig(s)

	// ---- encoder: presence per struct instance
	buf := make([]byte, len(want)+256)
	er := fEncode(buf, v.Interface())
	if er.panicked() || er.err != nil {
		c.Violation("encode-failed", "C10/encode-failed/"+sig, "EncodeObject failed: err=%v panic=%v", er.err, er.pv)
		return
	}
	out := buf[:er.n]
	pr := wire.Parse(out)
	if pr.Verdict == wire.Malformed {
		c.Violation("malformed", "C10/malformed/"+sig, "output malformed: %s at %d", pr.Reason, pr.ErrOff)
		return
	}
	omitted, written, lenientCells := 0, 0, 0
	topIDs := ""
	walkBoth(s, v.Elem(), pr.Root, out, "", func(st *schema.Struct, sv reflect.Value, n *wire.Node, path string) {
		for _, f := range st.Fields {
			expect, lenient := ref.Presence(st, f, sv)
			got := fieldNode(n, f) != nil
			if lenient {
				// -0.0 against a 0.0 default, NaN against a NaN default: "equal to the
				// default" is decided with Go's == (IEEE), as generated Thrift code and
				// the reference encoder do: -0.0 is omitted, NaN is written
				lenientCells++
			}
			if f.Req == schema.Optional {
				if got {
					written++
				} else {
					omitted++
				}
			}
			if got != expect {
				what := "omitted a field that must be written"
				if got {
					what = "wrote a field that must be omitted"
				}
				c.Violation("presence", fmt.Sprintf("C10/presence/%s/%s/written=%v", f.Req, f.T.SigShallow(), got), "encoder %s: struct %s%s field %d (%s %s, Go %s): value=%v out=%s", what, st.Name, path, f.ID, f.Req, f.T.Sig(), f.Name, clipVal(sv.Field(f.Index)), hexClip(out))
			}
		}
		if path == "" {
			for _, fn := range n.Fields {
				topIDs += fmt.Sprint(fn.ID, ",")
			}
		}
	})
	c.Count("optional_omitted", int64(omitted))
	c.Count("optional_written", int64(written))
	c.Count("lenient_cells", int64(lenientCells))
	if omitted > 0 && written > 0 {
		c.NonTrivial()
	}
	c.Shape(s.Sig())
	c.Shape(topIDs)

	// ---- decoder: omission at every level, junk pre-filled top level
	seed := r.Uint64()
	omitR := gen.New(seed)
	rate := r.Intn(5)
	msg := ref.EncodeWith(s, v.Elem(), &ref.EncodeOpts{Order: r.Perm, Omit: func(_ *schema.Struct, f *schema.Field) bool {
		return f.Req != schema.Required && omitR.Intn(10) < rate
	}})
	exp, act := prefillPair(r, s)
	c.Step("decode omit-rate=%d msg=%s type=%s", rate, hexClip(msg), s.Describe())
	rn, info, rerr := ref.Decode(s, msg, exp.Elem())
	if rerr != nil || info.DupKey {
		c.Tag("skipped:reference-rejects")
		return
	}
	setPoison(idx%2 == 1) // pool sanitizer in every other case
	dr := fDecode(msg, act.Interface())
	setPoison(false)
	if dr.panicked() || dr.err != nil {
		c.Violation("decode-failed", "C10/decode-failed/"+sig, "DecodeObject failed on a well-formed message: err=%v panic=%v", dr.err, dr.pv)
		return
	}
	if dr.n != rn {
		c.Violation("n", "C10/n/"+sig, "n=%d, reference %d", dr.n, rn)
	}
	if d := ref.Diff(s, exp.Elem(), act.Elem(), ref.CmpOpts{}); d != "" {
		c.Violation("defaults", "C10/decode-defaults/"+ref.FieldDiffSig(s, exp.Elem(), act.Elem(), ref.CmpOpts{}), "destination differs from the reference decoder's (defaults / untouched fields / pointer nil-ness): %s msg=%s", d, hexClip(msg))
	}
	c.Sample(map[string]string{"type": s.Describe(), "encoded": hexClip(out), "decoded_from": hexClip(msg)})
}

func clipVal(v reflect.Value) string {
	s := fmt.Sprintf("%v", v)
	if v.Kind() == reflect.Float64 {
		s = fmt.Sprintf("%v (bits %#x)", v.Float(), math.Float64bits(v.Float()))
	}
	if len(s) > 80 {
		s = s[:80] + "…"
	}
	return s
}

// sortedKeys returns the keys of map v (of schema type t) ordered by their encoding.
func sortedKeys(t *schema.Type, v reflect.Value) []reflect.Value {
	keys := v.MapKeys()
	enc := make(map[int][]byte, len(keys))
	idx := make([]int, len(keys))
	for i, k := range keys {
		enc[i] = ref.ValueBytes(t.Key, k)
		idx[i] = i
	}
	sort.SliceStable(idx, func(a, b int) bool { return bytes.Compare(enc[idx[a]], enc[idx[b]]) < 0 })
	out := make([]reflect.Value, len(keys))
	for i, j := range idx {
		out[i] = keys[j]
	}
	return out
}
