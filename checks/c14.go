package checks

import (
	"bytes"
	"fmt"
	"reflect"
	"unsafe"

	"verif/gen"
	"verif/harness"
	"verif/mon"
	"verif/ref"
	"verif/schema"
	"verif/wire"
	"verif/zoo"
)

func init() {
	register(&Check{
		ID:   "C14",
		Rule: "case = (type mixing nocopy and ordinary string/binary fields, plain and optional-pointer forms, nested structs at field / list element / map value position, value with lengths from 0 to 70000, reference-encoded message in random wire order, buffer right-aligned against a guard page). Oracle: every nocopy field is exactly (address, len, cap) the value's extent in the input as located by the schema-less parser; zero-length values and every other piece of the decoded object (memory walker) lie outside the buffer; flipping buffer bytes outside nocopy extents leaves the value unchanged, flipping bytes inside shows through that field; in every third case a second message (half of them with empty strings) is decoded into the same destination instead: the first result's memory image is unchanged and the object equals the reference decoder's. distinct = distinct (type shape, set of value lengths classes); non-trivial = at least one non-empty nocopy value and one ordinary string/binary",
		Plan: func(tier string) []BuildPlan {
			if tier == "thorough" {
				return []BuildPlan{{"plain", 500000}, {"checkptr", 150000}, {"asan", 40000}}
			}
			return []BuildPlan{{"plain", 3000}, {"checkptr", 1500}, {"asan", 500}}
		},
		Run: runC14,
	})
}

type ncExtent struct{ lo, hi int }

func runC14(c *harness.Ctx, idx int) {
	r := c.Rand(idx)
	tc := gen.DefaultTypeCfg()
	tc.NoCopy = true
	tc.BigIDs = false
	tc.ZooNest = r.Chance(1, 4)
	tc.MaxFields = 6
	var s *schema.Struct
	if idx%4 == 1 {
		// containers whose keys/elements are decoded right after a struct ending in a nocopy field
		item := &schema.Struct{UnknownIdx: -1, Fields: []*schema.Field{
			{ID: 1, Req: schema.Default, T: schema.Scalar(schema.I32)},
			{ID: 2, Req: schema.Req(r.Intn(3)), T: schema.Scalar([]schema.Kind{schema.String, schema.Binary}[r.Intn(2)]), NoCopy: true},
		}}
		item.Build()
		s = &schema.Struct{UnknownIdx: -1, Fields: []*schema.Field{
			{ID: 1, Req: schema.Default, T: schema.MapOf(schema.Scalar(schema.String), schema.StructOf(item, r.Bool()))},
			{ID: 2, Req: schema.Default, T: schema.ListOf(schema.MapOf(schema.Scalar(schema.String), schema.StructOf(item, true)))},
			{ID: 3, Req: schema.Default, T: schema.MapOf(schema.StructOf(item, true), schema.Scalar([]schema.Kind{schema.String, schema.Binary}[r.Intn(2)]))},
			{ID: 4, Req: schema.Default, T: schema.ListOf(schema.StructOf(item, r.Bool()))},
			{ID: 5, Req: schema.Default, T: schema.Scalar(schema.String)},
		}}
		s.GoOrder = r.Perm(5)
		s.Build()
	} else if idx%4 == 0 {
		// dense: every string form side by side
		s = &schema.Struct{UnknownIdx: -1}
		forms := []struct {
			k      schema.Kind
			ptr    bool
			nocopy bool
		}{{schema.String, false, true}, {schema.String, false, false}, {schema.Binary, false, true}, {schema.Binary, false, false}, {schema.String, true, true}, {schema.String, true, false}, {schema.Binary, true, true}, {schema.Binary, true, false}}
		for i, j := range r.Perm(len(forms)) {
			f := forms[j]
			t := schema.Scalar(f.k)
			req := schema.Req(r.Intn(3))
			if f.ptr {
				t = schema.PtrTo(t)
				req = schema.Optional
			}
			nf := &schema.Field{ID: uint16(1 + i*3 + r.Intn(3)), Req: req, T: t, NoCopy: f.nocopy}
			if f.nocopy && r.Chance(1, 3) {
				// the option declared through the fallback thrift tag (name first), no frugal tag
				tag := schema.TagFor(nf)
				nf.Tag = `thrift:"fld` + fmt.Sprint(i) + `,` + tag[len(`frugal:"`):]
			}
			s.Fields = append(s.Fields, nf)
		}
		s.Fields = append(s.Fields, &schema.Field{ID: 40, Req: schema.Default, T: schema.ListOf(schema.Scalar(schema.String))})
		s.GoOrder = r.Perm(len(s.Fields))
		s.Build()
	} else if idx%16 == 2 {
		// nocopy fields with declared (non-empty) defaults, in structs the decoder creates
		s = gen.Zoo([]interface{}{&zoo.DefsNCHolder{}, &zoo.DefsNC{}}[r.Intn(2)])
	} else {
		s = gen.RandomStruct(r, tc, 0)
	}
	vc := gen.DefaultValCfg()
	vc.Big = r.Chance(1, 3)
	v := gen.NewValue(r, s, vc)
	msg := ref.EncodeWith(s, v.Elem(), &ref.EncodeOpts{Order: r.Perm})
	c.Describe("type=%s msg=%s", s.Describe(), hexClip(msg))
	c.Hint(structSig(s))
	c.Shape(s.Sig())
	sig := structSig(s)
	pr := wire.Parse(msg)
	g, reg := mon.GuardedCopy(msg, false)
	defer reg.Free()
	lo, hi := mon.Addr(g), mon.Addr(g)+uintptr(len(g))
	exp := reflect.New(s.Go)
	_, info, rerr := ref.Decode(s, msg, exp.Elem())
	if rerr != nil || info.DupKey {
		c.Tag("skipped:reference-rejects")
		return
	}
	if r.Bool() && len(msg) > 4 {
		// history: a decode of the same message cut short (often inside a nocopy value)
		// fails first; nothing of it may linger in the pooled decoder
		cut := 1 + r.Intn(len(msg)-1)
		fDecode(append([]byte(nil), msg[:cut]...), reflect.New(s.Go).Interface())
		c.Count("failed_priming_decodes", 1)
	}
	dst := reflect.New(s.Go)
	dr := fDecode(g, dst.Interface())
	if dr.panicked() || dr.err != nil {
		c.Violation("decode-failed", "C14/decode-failed/"+sig, "DecodeObject failed: err=%v panic=%v [%s]", dr.err, dr.pv, shortStack(dr.stack))
		return
	}
	if d := ref.Diff(s, exp.Elem(), dst.Elem(), ref.CmpOpts{}); d != "" {
		c.Violation("value", "C14/value/"+sig, "decoded value differs from the reference decoder's: %s", d)
		return
	}
	// locate every nocopy field occurrence and check its view
	nonEmptyNC, ordinary := 0, 0
	lens := ""
	viewCheck := func(root reflect.Value, rootNode *wire.Node, msg []byte, lo, hi uintptr, which string) []ncExtent {
		var extents []ncExtent
		walkBoth(s, root, rootNode, msg, "", func(st *schema.Struct, sv reflect.Value, n *wire.Node, path string) {
			for _, f := range st.Fields {
				if f.T.K != schema.String && f.T.K != schema.Binary {
					continue
				}
				fn := fieldNode(n, f)
				if fn == nil {
					continue
				}
				if !f.NoCopy {
					ordinary++
					continue
				}
				fv := sv.Field(f.Index)
				if f.T.Ptr {
					if fv.IsNil() {
						c.Violation("nil", "C14/ptr-nil", "%soptional nocopy field %s.%d present in the message but nil after decoding", which, path, f.ID)
						continue
					}
					fv = fv.Elem()
				}
				off, l := fn.V.Start+4, fn.V.Count
				lens += fmt.Sprint(lenClass(l), ",")
				var data uintptr
				capacity := l
				if f.T.K == schema.Binary {
					data = fv.Pointer()
					capacity = fv.Cap()
				} else {
					str := fv.String()
					data = uintptr(unsafe.Pointer(unsafe.StringData(str)))
				}
				if fv.Len() != l {
					c.Violation("len", "C14/len", "%snocopy field %s.%d has len %d, value has %d bytes", which, path, f.ID, fv.Len(), l)
					continue
				}
				if l == 0 {
					if data >= lo && data <= hi && data != 0 {
						c.Violation("empty-aliases", "C14/empty-aliases-buffer", "%szero-length nocopy field %s.%d points into the input buffer (offset %d)", which, path, f.ID, data-lo)
					}
					continue
				}
				nonEmptyNC++
				if data != lo+uintptr(off) {
					if data >= lo && data < hi {
						c.Violation("view", "C14/view-offset", "%snocopy field %s.%d views buffer offset %d, its value is at %d", which, path, f.ID, data-lo, off)
					} else {
						c.Violation("view", "C14/not-a-view", "%snocopy field %s.%d (len %d) does not view the input buffer", which, path, f.ID, l)
					}
					continue
				}
				if capacity != l {
					c.Violation("cap", "C14/spare-capacity", "%snocopy binary field %s.%d has len %d but cap %d: spare capacity exposes the buffer beyond the value", which, path, f.ID, l, capacity)
				}
				extents = append(extents, ncExtent{off, off + l})
			}
		})
		return extents
	}
	walkUnaligned = 0
	extents := viewCheck(dst.Elem(), pr.Root, msg, lo, hi, "")
	c.Shape(lens)
	c.Count("nocopy_views", int64(len(extents)))
	if nonEmptyNC > 0 && ordinary > 0 {
		c.NonTrivial()
	}
	if walkUnaligned > 0 {
		// some map entries could not be aligned with the wire (equal-valued or NaN keys):
		// the list of nocopy extents is incomplete, the remaining oracles would misfire
		c.Tag("skipped:unalignable-map-entries")
		return
	}
	// nothing else may touch the buffer
	var pieces []mon.Piece
	mon.Walk(dst.Elem(), "", &pieces)
	for _, p := range mon.Overlapping(pieces, lo, hi) {
		ok := false
		for _, e := range extents {
			if p.Addr == lo+uintptr(e.lo) && p.Size == uintptr(e.hi-e.lo) {
				ok = true
			}
		}
		if !ok {
			c.Violation("aliases", "C14/other-piece-in-buffer/"+p.Kind, "%s %s [%d,%d) of the decoded object lies in the input buffer but is not a nocopy value extent", p.Kind, p.Path, p.Addr-lo, p.End()-lo)
		}
	}
	if a := mon.CheckAlign(pieces); a != "" {
		c.Violation("align", "C14/align", "%s", a)
	}
	if idx%3 == 0 {
		// the application decodes the next message into the same object while still holding
		// (a shallow copy of) the first result: the views handed out by the first decode stay
		// views of the first buffer, the object takes the second message's values - also
		// where those are empty
		keep := reflect.New(s.Go)
		keep.Elem().Set(dst.Elem())
		var kp []mon.Piece
		mon.Walk(keep.Elem(), "", &kp)
		kp = mon.DropStatic(kp)
		kimg := mon.Image(kp)
		vc2 := gen.DefaultValCfg()
		if r.Bool() {
			vc2.ForceStrLen = 0
		}
		v2 := gen.NewValue(r, s, vc2)
		msg2 := ref.EncodeWith(s, v2.Elem(), &ref.EncodeOpts{Order: r.Perm})
		c.Step("second message into the same destination msg2=%s", hexClip(msg2))
		if _, info2, rerr2 := ref.Decode(s, msg2, exp.Elem()); rerr2 == nil && !info2.DupKey {
			g2, reg2 := mon.GuardedCopy(msg2, false)
			defer reg2.Free()
			d2 := fDecode(g2, dst.Interface())
			if d2.panicked() || d2.err != nil {
				c.Violation("decode-failed", "C14/redecode-failed/"+sig, "DecodeObject of a second message into the same destination failed: err=%v panic=%v", d2.err, d2.pv)
				return
			}
			if d := mon.CompareImage(kp, kimg); d != "" {
				c.Violation("old-view-changed", "C14/first-result-rewritten", "decoding a second message into the same destination rewrote memory of the first result (its fields no longer view the first buffer): %s", d)
			}
			if d := ref.Diff(s, exp.Elem(), dst.Elem(), ref.CmpOpts{}); d != "" {
				c.Violation("value", "C14/redecode-value/"+sig, "after a second message into the same destination the value differs from the reference decoder's: %s", d)
			}
			// and what the second message carried views the second buffer exactly
			lo2 := mon.Addr(g2)
			viewCheck(dst.Elem(), wire.Parse(msg2).Root, msg2, lo2, lo2+uintptr(len(g2)), "second decode into the same destination: ")
			c.Count("second_decodes", 1)
		}
		c.Tag("variant:reused-destination")
		c.Sample(map[string]interface{}{"type": s.Describe(), "msg": hexClip(msg), "views": len(extents), "variant": "reused-destination"})
		return
	}
	// buffer mutation outside the views is invisible, inside is visible
	inView := make([]bool, len(g))
	for _, e := range extents {
		for i := e.lo; i < e.hi; i++ {
			inView[i] = true
		}
	}
	before := ref.Canon(s, dst.Elem(), ref.CmpOpts{})
	for i := range g {
		if !inView[i] {
			g[i] ^= 0x5a
		}
	}
	if !bytes.Equal(before, ref.Canon(s, dst.Elem(), ref.CmpOpts{})) {
		c.Violation("outside-visible", "C14/outside-visible", "changing buffer bytes outside every nocopy value changed the decoded value")
	}
	if len(extents) > 0 {
		for i := range g {
			if inView[i] {
				g[i] ^= 0xa5
			}
		}
		after := ref.Canon(s, dst.Elem(), ref.CmpOpts{})
		if bytes.Equal(before, after) {
			c.Violation("inside-invisible", "C14/inside-invisible", "changing the buffer bytes of nocopy values is not visible through the fields")
		}
	}
	c.Sample(map[string]interface{}{"type": s.Describe(), "msg": hexClip(msg), "views": len(extents)})
}

func lenClass(l int) string {
	switch {
	case l == 0:
		return "0"
	case l < 16:
		return "s"
	case l < 256:
		return "m"
	case l < 2048:
		return "l"
	}
	return "xl"
}
