package checks

import (
	"reflect"
	"sync/atomic"
	"unsafe"

	"github.com/cloudwego/frugal"
)

// Pool sanitizer wiring: see /repo/internal/reflect/verif_on.go.

var junkCounter atomic.Uint64

func junk64() uint64 {
	z := junkCounter.Add(0x9e3779b97f4a7c15)
	z = (z ^ (z >> 30)) * 0xbf58476d1ce4e5b9
	z = (z ^ (z >> 27)) * 0x94d049bb133111eb
	return z ^ (z >> 31)
}

// fillJunk overwrites the addressable value v with an arbitrary valid value of
// its type (what a predecessor's last map entry / by-value argument could be).
func fillJunk(v reflect.Value) { fillJunkDepth(v, 0) }

func fillJunkDepth(v reflect.Value, depth int) {
	if !v.CanSet() {
		if v.CanAddr() {
			v = reflect.NewAt(v.Type(), unsafe.Pointer(v.UnsafeAddr())).Elem()
		} else {
			return
		}
	}
	switch v.Kind() {
	case reflect.Bool:
		v.SetBool(junk64()&1 == 1)
	case reflect.Int8, reflect.Int16, reflect.Int32, reflect.Int64, reflect.Int:
		v.SetInt(int64(junk64()))
	case reflect.Float64:
		v.SetFloat(float64(junk64()%100000) + 0.5)
	case reflect.String:
		v.SetString("POISON-STALE-STRING-" + string(rune('A'+junk64()%26)))
	case reflect.Slice:
		if depth > 2 {
			v.Set(reflect.Zero(v.Type()))
			return
		}
		s := reflect.MakeSlice(v.Type(), 2, 3)
		fillJunkDepth(s.Index(0), depth+1)
		fillJunkDepth(s.Index(1), depth+1)
		v.Set(s)
	case reflect.Map:
		if depth > 2 {
			v.Set(reflect.Zero(v.Type()))
			return
		}
		m := reflect.MakeMap(v.Type())
		k := reflect.New(v.Type().Key()).Elem()
		fillJunkDepth(k, depth+1)
		e := reflect.New(v.Type().Elem()).Elem()
		fillJunkDepth(e, depth+1)
		m.SetMapIndex(k, e)
		v.Set(m)
	case reflect.Ptr:
		if depth > 2 {
			v.Set(reflect.Zero(v.Type()))
			return
		}
		p := reflect.New(v.Type().Elem())
		fillJunkDepth(p.Elem(), depth+1)
		v.Set(p)
	case reflect.Struct:
		for i := 0; i < v.NumField(); i++ {
			fillJunkDepth(v.Field(i), depth+1)
		}
	}
}

var (
	hooksPoison = &frugal.VerifHooks{
		Poison:    true,
		FillValue: fillJunk,
		SpanSkew:  func(free int) int { return int(junk64() % uint64(free+1)) },
		SpanCheck: true,
	}
	hooksObserve = &frugal.VerifHooks{SpanCheck: true}
)

// setPoison switches the pool sanitizer on or off (the allocator contract
// monitor stays on in both modes).
func setPoison(on bool) {
	if on {
		frugal.VerifSetHooks(hooksPoison)
	} else {
		frugal.VerifSetHooks(hooksObserve)
	}
}
