package checks

import (
	"bytes"
	"fmt"
	"reflect"

	"verif/gen"
	"verif/harness"
	"verif/mon"
	"verif/ref"
	"verif/schema"
	"verif/wire"
	"verif/zoo"
)

func init() {
	register(&Check{
		ID:   "C11",
		Rule: "case = (newer writer schema W, value, older reader type T = W minus fields at every nesting level (or with fields retyped), with the unknown-fields holder on every struct / on none / at random). Oracles: (1) the holder of every struct instance equals the concatenation, in message order, of the raw bytes of its unrecognised fields, computed from the schema-less parse tree extents; (2) known fields equal the reference decoder's; (3) EncodedSize == bytes written == a well-formed message, and decoding the re-encoded bytes with W gives back the original W value when every struct of T keeps a holder; (4) a holder-less twin of T decodes the same message to the same known fields. Half of the cases run under the pool sanitizer. distinct = distinct (W shape, T shape); non-trivial = at least one unknown field was retained",
		Plan: func(tier string) []BuildPlan {
			if tier == "thorough" {
				return []BuildPlan{{"plain", 400000}, {"checkptr", 100000}, {"asan", 20000}}
			}
			return []BuildPlan{{"plain", 5000}, {"checkptr", 2000}}
		},
		Run: runC11,
	})
}

func runC11(c *harness.Ctx, idx int) {
	r := c.Rand(idx)
	mode := idx % 4 // 0,1: holders everywhere + only-remove (second hop possible); 2: random; 3: zoo
	if idx%10 == 9 {
		mode = 4 // by-value struct map/list values whose known fields are all required (or none), optional extras on the wire
	}
	var w, t *schema.Struct
	class := ""
	secondHop := false
	switch mode {
	case 0, 1:
		tc := gen.DefaultTypeCfg()
		tc.ZooNest = false
		tc.Unknown = false
		tc.Extras = false
		tc.BigIDs = r.Chance(1, 6)
		w = gen.RandomStruct(r, tc, 0)
		t = gen.Evolve(r, w, &gen.EvolveCfg{OnlyRemove: true, Holder: 1}, 0)
		class = "older-reader-holders-everywhere"
		secondHop = true
	case 2:
		tc := gen.DefaultTypeCfg()
		tc.Extras = false
		w = gen.RandomStruct(r, tc, 0)
		t = gen.Evolve(r, w, &gen.EvolveCfg{Holder: 0}, 0)
		class = "evolved-random-holders"
	case 4:
		// writer: S{required...; optional extras}; reader: S'{required... (or nothing); holder},
		// held BY VALUE in a map and a list: entries with and without unknown fields alternate
		nreq := r.Intn(3)
		ws := &schema.Struct{UnknownIdx: -1}
		ts := &schema.Struct{UnknownIdx: -1, HasUnknown: true}
		kinds := []string{"i32", "string", "i64", "bool", "double", "binary"}
		for i := 0; i < nreq; i++ {
			ft := gen.FormType(r, kinds[r.Intn(len(kinds))], gen.DefaultTypeCfg(), 2)
			ws.Fields = append(ws.Fields, &schema.Field{ID: uint16(1 + i), Req: schema.Required, T: ft})
			ts.Fields = append(ts.Fields, &schema.Field{ID: uint16(1 + i), Req: schema.Required, T: ft})
		}
		for i := 0; i < 1+r.Intn(3); i++ {
			ft := gen.FormType(r, kinds[r.Intn(len(kinds))], gen.DefaultTypeCfg(), 2)
			if ft.K != schema.Binary {
				ft = schema.PtrTo(ft)
			}
			ws.Fields = append(ws.Fields, &schema.Field{ID: uint16(20 + i), Req: schema.Optional, T: ft})
		}
		ws.Build()
		ts.Build()
		mk := func(s *schema.Struct) *schema.Struct {
			o := &schema.Struct{UnknownIdx: -1, Fields: []*schema.Field{
				{ID: 1, Req: schema.Default, T: schema.MapOf(gen.FormType(r, gen.KeyForms[r.Intn(8)], gen.DefaultTypeCfg(), 2), schema.StructOf(s, false))},
				{ID: 2, Req: schema.Default, T: schema.ListOf(schema.StructOf(s, false))},
				{ID: 3, Req: schema.Default, T: schema.StructOf(s, false)},
			}}
			if s == ts {
				o.HasUnknown = true
			}
			o.Build()
			return o
		}
		seedT := r.Uint64()
		save := *r
		*r = *gen.New(seedT)
		w = mk(ws)
		*r = *gen.New(seedT)
		t = mk(ts)
		*r = save
		class = "byvalue-all-required-with-holder"
		secondHop = true
	default:
		if r.Bool() {
			w, t, class = gen.Zoo(&zoo.Node{}), gen.Zoo(&zoo.NodeU{}), "zoo:Node->NodeU"
		} else {
			// UnknownNest read messages of a random wider writer: build writer by evolving the reader "backwards"
			t = gen.Zoo(&zoo.UnknownNest{})
			w = t
			class = "zoo:UnknownNest+holder-prefilled"
		}
	}
	vc := gen.DefaultValCfg()
	vc.Holder = mode == 3 // writer values carrying their own unknown bytes (UnknownNest)
	vc.Big = r.Chance(1, 10)
	wv := gen.NewValue(r, w, vc)
	msg := ref.EncodeWith(w, wv.Elem(), &ref.EncodeOpts{Order: r.Perm})
	poison := r.Bool()
	c.Describe("%s poison=%v W=%s T=%s msg=%s", class, poison, w.Describe(), t.Describe(), hexClip(msg))
	c.Hint("T:" + structSig(t))
	c.Tag("class:" + class)
	c.Tag(fmt.Sprintf("poison:%v", poison))
	c.Shape(w.Sig())
	c.Shape(t.Sig())
	sig := structSig(t)
	pr := wire.Parse(msg)
	if pr.Verdict == wire.Malformed {
		panic("reference encoder produced a malformed message")
	}
	exp := reflect.New(t.Go)
	rn, info, rerr := ref.Decode(t, msg, exp.Elem())
	if rerr != nil || info.DupKey || info.DupField {
		c.Tag("skipped:reference-rejects-or-duplicates")
		return
	}
	setPoison(poison)
	defer setPoison(false)
	// history: other messages for the same reader go through the pooled unknown-field
	// index first (other offsets, other numbers of unknown fields, one cut short)
	for k, nprime := 0, r.Intn(3); k < nprime; k++ {
		pv := gen.NewValue(r, w, vc)
		prate := r.Intn(6)
		pm := ref.EncodeWith(w, pv.Elem(), &ref.EncodeOpts{Order: r.Perm, Omit: func(_ *schema.Struct, f *schema.Field) bool {
			return f.Req != schema.Required && r.Intn(10) < prate
		}})
		if r.Chance(1, 4) && len(pm) > 3 {
			pm = pm[:1+r.Intn(len(pm)-1)]
		}
		fDecode(pm, reflect.New(t.Go).Interface())
		c.Count("priming_decodes", 1)
	}
	g, reg := mon.GuardedCopy(msg, false)
	defer reg.Free()
	act := reflect.New(t.Go)
	dr := fDecode(g, act.Interface())
	if dr.panicked() || dr.err != nil {
		c.Violation("decode-failed", "C11/decode-failed/"+sig, "DecodeObject failed on a well-formed message: err=%v panic=%v [%s]", dr.err, dr.pv, shortStack(dr.stack))
		return
	}
	if dr.n != rn {
		c.Violation("n", "C11/n/"+sig, "n=%d, reference %d", dr.n, rn)
	}
	// (1) holders from parse-tree extents, independently of the reference decoder
	retained := 0
	walkBoth(t, act.Elem(), pr.Root, msg, "", func(s *schema.Struct, sv reflect.Value, n *wire.Node, path string) {
		if !s.HasUnknown {
			return
		}
		var want []byte
		for _, fn := range n.Fields {
			f := s.FieldByID(fn.ID)
			if f == nil || f.T.WT() != fn.T {
				want = append(want, msg[fn.HdrOff:fn.V.End]...)
			}
		}
		got := ref.Holder(s, sv)
		retained += len(want)
		if !bytes.Equal(want, got) {
			c.Violation("holder", "C11/holder-bytes", "holder of struct %s at %q is %s, expected the unrecognised fields' raw bytes %s", s.Name, path, hexClip(got), hexClip(want))
		}
	})
	c.Count("retained_bytes", int64(retained))
	if retained > 0 {
		c.NonTrivial()
	}
	// the holder must be the decode's own memory, not a view of the input
	var pieces []mon.Piece
	mon.Walk(act.Elem(), "", &pieces)
	if ov := mon.Overlapping(pieces, mon.Addr(g), mon.Addr(g)+uintptr(len(g))); len(ov) > 0 {
		c.Violation("holder-aliases-input", "C11/aliases-input", "%s %s of the decoded object points into the input buffer", ov[0].Kind, ov[0].Path)
	}
	// (2) known fields + holders vs the reference decoder
	if d := ref.Diff(t, exp.Elem(), act.Elem(), ref.CmpOpts{}); d != "" {
		c.Violation("destination", "C11/destination/"+ref.FieldDiffSig(t, exp.Elem(), act.Elem(), ref.CmpOpts{}), "decoded value differs from the reference decoder's: %s", d)
		return
	}
	// overwrite the input: the retained bytes must not change
	snap := ref.Canon(t, act.Elem(), ref.CmpOpts{})
	for i := range g {
		g[i] ^= 0xff
	}
	if !bytes.Equal(snap, ref.Canon(t, act.Elem(), ref.CmpOpts{})) {
		c.Violation("holder-aliases-input", "C11/changes-with-input", "decoded value changed when the input buffer was overwritten")
	}
	// (3) re-encode
	sz := fSize(act.Interface())
	if sz.panicked() {
		c.Violation("size-panic", "C11/size-panic/"+sig, "EncodedSize panicked: %v", sz.pv)
		return
	}
	want := ref.Encode(t, act.Elem())
	buf := make([]byte, len(want)+64)
	er := fEncode(buf, act.Interface())
	if er.panicked() || er.err != nil {
		c.Violation("reencode-failed", "C11/reencode-failed/"+sig, "re-encoding failed: err=%v panic=%v", er.err, er.pv)
		return
	}
	if sz.n != er.n {
		c.Violation("size", "C11/size-ignores-holder/"+sig, "EncodedSize=%d but %d bytes were written (holders hold %d bytes)", sz.n, er.n, retained)
	}
	out := buf[:er.n]
	if !checkWireAgainstRef(c, "C11", t, sig, out, want) {
		return
	}
	if secondHop {
		// second hop: the original writer's schema reads everything back
		back := fresh(w)
		br := fDecode(out, back.Interface())
		if br.panicked() || br.err != nil {
			c.Violation("second-hop", "C11/second-hop-failed", "second-hop decode with the writer's schema failed: err=%v panic=%v reencoded=%s", br.err, br.pv, hexClip(out))
			return
		}
		// "loses nothing": every struct instance of the forwarded message carries the
		// same fields with the same bytes as the original message, whatever the order
		// (the older reader may add empty defaults of fields it knows, never drop or alter)
		if why := wire.Contains(out, msg); why != "" {
			c.Violation("second-hop", "C11/second-hop-loss", "the message forwarded by the older reader lost or altered something: %s; forwarded=%s original=%s", why, hexClip(out), hexClip(msg))
		}
		// and the writer's schema reads it as the reference decoder does
		exp2 := fresh(w)
		if _, _, rerr := ref.Decode(w, out, exp2.Elem()); rerr == nil {
			if d := ref.Diff(w, exp2.Elem(), back.Elem(), ref.CmpOpts{}); d != "" {
				c.Violation("second-hop", "C11/second-hop-value", "second-hop decode differs from the reference decoder's: %s", d)
			}
		}
	}
	// (4) holder-less twin decodes the same known fields
	if isDyn(t) {
		for i := range g {
			g[i] ^= 0xff // restore the input
		}
		twin := gen.StripHolders(t)
		if hasZeroSizeKey(twin) {
			// a key struct left without any field is zero-size: all such pointer keys
			// are equal in Go, the twin's map cannot hold the same entries (not compared)
			c.Tag("skipped:twin-zero-size-key")
			c.Sample(map[string]string{"W": w.Describe(), "T": t.Describe(), "msg": hexClip(msg), "reencoded": hexClip(out)})
			return
		}
		tv := reflect.New(twin.Go)
		tr := fDecode(g, tv.Interface())
		if tr.panicked() || tr.err != nil {
			c.Violation("twin", "C11/twin-failed", "holder-less twin failed to decode: err=%v panic=%v", tr.err, tr.pv)
			return
		}
		texp := reflect.New(twin.Go)
		ref.Decode(twin, msg, texp.Elem())
		if d := ref.Diff(twin, texp.Elem(), tv.Elem(), ref.CmpOpts{}); d != "" {
			c.Violation("twin", "C11/twin-differs", "holder-less twin decodes recognised fields differently: %s", d)
		}
		// and its known fields equal those of the holder-carrying type
		io := ref.CmpOpts{IgnoreHolders: true}
		if ca, cb := ref.Canon(t, act.Elem(), io), ref.Canon(twin, tv.Elem(), io); !bytes.Equal(ca, cb) {
			c.Violation("twin", "C11/twin-vs-holder", "recognised fields differ between the holder-carrying type and its holder-less twin (canonical offset %d)", firstDiff(ca, cb))
		}
	}
	c.Sample(map[string]string{"W": w.Describe(), "T": t.Describe(), "msg": hexClip(msg), "reencoded": hexClip(out)})
}

func isDyn(s *schema.Struct) bool { return s.Go.Name() == "" }


func hasZeroSizeKey(s *schema.Struct) bool {
	found := false
	walkSchema(s, map[*schema.Struct]bool{}, func(st *schema.Struct) {
		var wt func(t *schema.Type)
		wt = func(t *schema.Type) {
			switch t.K {
			case schema.Map:
				if t.Key.K == schema.StructK && t.Key.S.Go.Size() == 0 {
					found = true
				}
				wt(t.Key)
				wt(t.Elem)
			case schema.List, schema.Set:
				wt(t.Elem)
			}
		}
		for _, f := range st.Fields {
			wt(f.T)
		}
	})
	return found
}
