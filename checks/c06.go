package checks

import (
	"bytes"
	"fmt"
	"reflect"
	"runtime"

	"verif/gen"
	"verif/harness"
	"verif/mon"
	"verif/ref"
	"verif/schema"
	"verif/zoo"
)

func init() {
	register(&Check{
		ID:   "C06",
		Rule: "case = (type, message) with types mixing alignments 1/2/4/8 (odd-length strings before list<i64>, *bool before *double, Wide zoo struct), list/string sizes on both sides of the allocator's 256-byte large-object and 2048-byte block thresholds, list<string>, list<*struct>, maps with pointer keys/values, optional scalar pointers, holders, zero-length values; after decoding, the memory walker lists every pointee / slice backing array up to cap / non-empty string: each must be aligned, outside the program's static image (except string constants of default initialisers), pairwise disjoint - also against the pieces of the 64 most recent decoded objects kept alive -, and outside the input buffer. Then a stress epoch: the input is overwritten, 3-8 further messages are decoded through the same pooled decoder (pool sanitizer skewing and filling the recycled block in half of the cases), runtime.GC() x3 (GODEBUG=clobberfree=1 in the clobber build: freed memory is overwritten), fresh garbage of the same size classes is allocated and filled, and the raw image and canonical value of every retained object are compared with the snapshot taken right after its decode. The allocator contract monitor hook checks every sub-allocation. distinct = distinct type shape; non-trivial = the object has at least 3 pieces",
		Plan: func(tier string) []BuildPlan {
			if tier == "thorough" {
				return []BuildPlan{{"plain", 20000}, {"clobber", 20000}, {"checkptr", 10000}, {"asan", 6000}, {"race", 2000}}
			}
			return []BuildPlan{{"plain", 800}, {"clobber", 800}, {"checkptr", 400}, {"asan", 300}}
		},
		Run: runC06,
		Assumptions: []string{"interior memory of runtime-managed map buckets is observed through iteration only"},
	})
}

type liveObj struct {
	s      *schema.Struct
	v      reflect.Value
	pieces []mon.Piece
	image  [][]byte
	canon  []byte
	idx    int
	static *mon.Piece
}

var (
	c06Live [64]*liveObj
	c06Next int
	c06Sink [][]byte
)

var c06Lens = []int{0, 1, 3, 7, 31, 32, 33, 255, 256, 257, 511, 2047, 2048, 2049, 4100}

// c06Type builds a type aimed at the allocator: mixed alignments and sizes.
func c06Type(r *gen.Rand) *schema.Struct {
	switch r.Intn(6) {
	case 0:
		return gen.Zoo(&zoo.Wide{})
	case 4, 5:
		// any cell of the shared corpus: every container-of-container combination
		// (list<map>, set<list>, map<k:set>, ...) and the static zoo types
		for {
			// (types with nocopy fields legitimately view the input: they have their own variant)
			if s := encCase(nil, r, r.Intn(encEnumerated)).S; !hasNoCopy(s) {
				return s
			}
		}
	case 1:
		tc := gen.DefaultTypeCfg()
		tc.BigIDs = false
		return gen.RandomStruct(r, tc, 0)
	}
	s := &schema.Struct{UnknownIdx: -1, HasUnknown: r.Chance(1, 3)}
	kinds := []func() *schema.Type{
		func() *schema.Type { return schema.Scalar(schema.String) },
		func() *schema.Type { return schema.Scalar(schema.Binary) },
		func() *schema.Type { return schema.ListOf(schema.Scalar(schema.I64)) },
		func() *schema.Type { return schema.ListOf(schema.Scalar(schema.I8)) },
		func() *schema.Type { return schema.ListOf(schema.Scalar(schema.I16)) },
		func() *schema.Type { return schema.ListOf(schema.Scalar(schema.Double)) },
		func() *schema.Type { return schema.ListOf(schema.Scalar(schema.Bool)) },
		func() *schema.Type { return schema.SetOf(schema.Scalar(schema.I32)) },
		func() *schema.Type { return schema.ListOf(schema.Scalar(schema.String)) },
		func() *schema.Type { return schema.ListOf(schema.StructOf(gen.Zoo(&zoo.Wide{}), true)) },
		func() *schema.Type { return schema.ListOf(schema.StructOf(gen.Zoo(&zoo.Leaf{}), false)) },
		func() *schema.Type { return schema.PtrTo(schema.Scalar(schema.Bool)) },
		func() *schema.Type { return schema.PtrTo(schema.Scalar(schema.Double)) },
		func() *schema.Type { return schema.PtrTo(schema.Scalar(schema.I16)) },
		func() *schema.Type { return schema.PtrTo(schema.Scalar(schema.I64)) },
		func() *schema.Type { return schema.PtrTo(schema.Scalar(schema.String)) },
		func() *schema.Type { return schema.PtrTo(schema.Scalar(schema.I8)) },
		func() *schema.Type { return schema.PtrTo(schema.Scalar(schema.Binary)) },
		func() *schema.Type {
			return schema.MapOf(schema.StructOf(gen.Zoo(&zoo.Leaf{}), true), schema.StructOf(gen.Zoo(&zoo.Wide{}), true))
		},
		func() *schema.Type { return schema.MapOf(schema.Scalar(schema.String), schema.ListOf(schema.Scalar(schema.I16))) },
		func() *schema.Type { return schema.MapOf(schema.Scalar(schema.I32), schema.Scalar(schema.String)) },
		func() *schema.Type { return schema.StructOf(gen.Zoo(&zoo.Wide{}), r.Bool()) },
	}
	// structs of fixed-size scalars only, plus an unknown-field holder: their only
	// pointer-bearing part is the holder the decoder fills
	scalarHolder := func() *schema.Struct {
		sh := &schema.Struct{UnknownIdx: -1, HasUnknown: true}
		ks := []schema.Kind{schema.Bool, schema.I8, schema.I16, schema.I32, schema.I64, schema.Double}
		m := 1 + r.Intn(3)
		for i := 0; i < m; i++ {
			sh.Fields = append(sh.Fields, &schema.Field{ID: uint16(1 + i), Req: schema.Req(r.Intn(2)), T: schema.Scalar(ks[r.Intn(len(ks))])})
		}
		sh.GoOrder = r.Perm(m + 1)
		for i, o := range sh.GoOrder {
			if o == m {
				sh.GoOrder[i] = schema.UnknownMarker
			}
		}
		sh.Build()
		return sh
	}
	kinds = append(kinds,
		func() *schema.Type { return schema.StructOf(scalarHolder(), true) },
		func() *schema.Type { return schema.ListOf(schema.StructOf(scalarHolder(), r.Bool())) },
		func() *schema.Type { return schema.MapOf(schema.Scalar(schema.I32), schema.StructOf(scalarHolder(), r.Bool())) },
		func() *schema.Type { return schema.StructOf(scalarHolder(), false) },
		func() *schema.Type { return schema.StructOf(scalarHolder(), true) },
		func() *schema.Type { return schema.StructOf(scalarHolder(), true) },
	)
	n := 3 + r.Intn(8)
	for i := 0; i < n; i++ {
		t := kinds[r.Intn(len(kinds))]()
		req := schema.Req(r.Intn(3))
		if t.Ptr && t.K != schema.StructK {
			req = schema.Optional
		}
		s.Fields = append(s.Fields, &schema.Field{ID: uint16(1 + i*2 + r.Intn(2)), Req: req, T: t})
	}
	s.GoOrder = append(r.Perm(n), func() []int {
		if s.HasUnknown {
			return []int{schema.UnknownMarker}
		}
		return nil
	}()...)
	s.Build()
	return s
}

func c06Value(r *gen.Rand, s *schema.Struct) reflect.Value {
	vc := gen.DefaultValCfg()
	vc.Budget = 150
	vc.HolderAlways = r.Bool() // unknown fields retained at every level that has a holder
	if r.Bool() {
		vc.ForceStrLen = c06Lens[r.Intn(len(c06Lens))]
	}
	if r.Bool() {
		vc.ForceCount = c06Lens[r.Intn(11)]
	}
	return gen.NewValue(r, s, vc)
}

// staticPiece returns a piece of a decoded object that lives in the program's static image
// although nothing legitimately puts it there: string constants are set by default
// initialisers only (types with InitDefault), and a slice or pointee is never static.
func staticPiece(s *schema.Struct, pieces []mon.Piece) *mon.Piece {
	hasInit := false
	walkSchema(s, map[*schema.Struct]bool{}, func(st *schema.Struct) {
		if st.HasInit {
			hasInit = true
		}
	})
	for i := range pieces {
		p := &pieces[i]
		if p.Size > 0 && mon.IsStatic(*p) && !(p.Kind == "string" && hasInit) {
			return p
		}
	}
	return nil
}

func snapshotObj(s *schema.Struct, v reflect.Value, idx int) *liveObj {
	o := &liveObj{s: s, v: v, idx: idx}
	mon.Walk(v.Elem(), "", &o.pieces)
	o.static = staticPiece(s, o.pieces)
	o.pieces = mon.DropStatic(o.pieces) // string constants set by default initialisers are not the decoder's
	for i := range o.pieces {
		o.pieces[i].Owner = idx
	}
	o.image = mon.Image(o.pieces)
	o.canon = ref.Canon(s, v.Elem(), ref.CmpOpts{})
	// the monitor itself must not keep any piece alive: what the decoder created has to be
	// reachable (for the collector) through the decoded object alone
	for i := range o.pieces {
		o.pieces[i].Ptr = nil
	}
	return o
}

// verifyLive walks the object again - through its own pointers - and compares what it
// finds with the snapshot: same pieces at the same addresses with the same bytes.
func verifyLive(l *liveObj) string {
	var cur []mon.Piece
	mon.Walk(l.v.Elem(), "", &cur)
	cur = mon.DropStatic(cur)
	// (maps are walked in Go's random iteration order: pieces are matched by address)
	at := make(map[uintptr]int, len(l.pieces))
	n0 := 0
	for i, p := range l.pieces {
		if p.Size > 0 {
			at[p.Addr] = i
			n0++
		}
	}
	n1 := 0
	for _, p := range cur {
		if p.Size == 0 {
			continue
		}
		n1++
		i, ok := at[p.Addr]
		if !ok || l.pieces[i].Size != p.Size {
			return fmt.Sprintf("%s %s [%#x,+%d) was not part of the object right after decoding", p.Kind, p.Path, p.Addr, p.Size)
		}
		if d := mon.CompareImage([]mon.Piece{p}, [][]byte{l.image[i]}); d != "" {
			return d
		}
	}
	if n0 != n1 {
		return fmt.Sprintf("the object now has %d pieces, it had %d right after decoding", n1, n0)
	}
	return ""
}

func runC06(c *harness.Ctx, idx int) {
	r := c.Rand(idx)
	s := c06Type(r)
	v := c06Value(r, s)
	msg := ref.EncodeWith(s, v.Elem(), &ref.EncodeOpts{Order: r.Perm})
	poison := r.Bool()
	if idx%5 == 4 {
		runC06NoCopy(c, r, poison)
		return
	}
	c.Describe("poison=%v type=%s msg=%s", poison, s.Describe(), hexClip(msg))
	c.Hint(structSig(s))
	c.Shape(s.Sig())
	c.Tag(fmt.Sprintf("poison:%v", poison))
	setPoison(poison)
	defer setPoison(false)
	in := append([]byte(nil), msg...)
	dst := reflect.New(s.Go)
	dr := fDecode(in, dst.Interface())
	if dr.panicked() || dr.err != nil {
		c.Violation("decode-failed", "C06/decode-failed", "DecodeObject failed on a well-formed message: err=%v panic=%v [%s]", dr.err, dr.pv, shortStack(dr.stack))
		return
	}
	exp := reflect.New(s.Go)
	if _, info, rerr := ref.Decode(s, msg, exp.Elem()); rerr == nil && !info.DupKey {
		if d := ref.Diff(s, exp.Elem(), dst.Elem(), ref.CmpOpts{}); d != "" {
			c.Violation("value", "C06/value", "decoded value differs from the reference decoder's right after decoding: %s", d)
			return
		}
	}
	o := snapshotObj(s, dst, idx)
	c.Count("pieces", int64(len(o.pieces)))
	if len(o.pieces) >= 3 {
		c.NonTrivial()
	}
	if a := mon.CheckAlign(o.pieces); a != "" {
		c.Violation("align", "C06/misaligned", "%s", a)
	}
	if p := o.static; p != nil {
		c.Violation("static", "C06/static-memory/"+p.Kind, "%s %s (%d bytes at %#x) of the decoded object lies in the program's static data, shared by every decode, instead of memory of its own", p.Kind, p.Path, p.Size, p.Addr)
	}
	lo, hi := mon.Addr(in), mon.Addr(in)+uintptr(len(in))
	if ov := mon.Overlapping(o.pieces, lo, hi); len(ov) > 0 {
		c.Violation("aliases-input", "C06/aliases-input/"+ov[0].Kind, "%s %s [%#x,%#x) of the decoded object lies inside the input buffer (no nocopy field declared)", ov[0].Kind, ov[0].Path, ov[0].Addr-lo, ov[0].End()-lo)
	}
	// disjointness against everything alive
	all := append([]mon.Piece(nil), o.pieces...)
	for _, l := range c06Live {
		if l != nil {
			all = append(all, l.pieces...)
		}
	}
	if d := mon.CheckDisjoint(all); d != "" {
		c.Violation("overlap", "C06/overlap", "%s", d)
	}
	c06Live[c06Next%len(c06Live)] = o
	c06Next++
	if r.Chance(1, 3) {
		// the application reuses the destination for the next message while still
		// holding pointers/slices of the first result: what the first decode
		// created must stay as it was
		v2 := c06Value(r, s)
		m2 := ref.EncodeWith(s, v2.Elem(), &ref.EncodeOpts{Order: r.Perm})
		c.Step("reuse destination for a second message type=%s msg=%s", s.Describe(), hexClip(m2))
		keep := reflect.New(s.Go)
		keep.Elem().Set(dst.Elem()) // shallow copy: same pointees, as an application holding the old result
		o.v = keep
		if r2 := fDecode(m2, dst.Interface()); !r2.panicked() && r2.err == nil {
			if d := verifyLive(o); d != "" {
				c.Violation("memory-changed", "C06/reused-destination-overwrites-old-result", "decoding a second message into the same destination changed memory created by the first decode: %s", d)
			}
		}
		c.Tag("variant:reused-destination")
	}

	// ---- stress epoch
	for i := range in {
		in[i] = 0xEE
	}
	k := 3 + r.Intn(6)
	for j := 0; j < k; j++ {
		s2 := s
		if r.Bool() {
			s2 = c06Type(r)
		}
		v2 := c06Value(r, s2)
		m2 := ref.Encode(s2, v2.Elem())
		c.Step("epoch decode %d/%d type=%s msg=%s", j+1, k, s2.Describe(), hexClip(m2))
		d2 := reflect.New(s2.Go)
		if r2 := fDecode(m2, d2.Interface()); r2.panicked() || r2.err != nil {
			c.Violation("decode-failed", "C06/decode-failed", "DecodeObject failed during the stress epoch: err=%v panic=%v", r2.err, r2.pv)
		}
		for i := range m2 {
			m2[i] = 0x99
		}
	}
	runtime.GC()
	runtime.GC()
	runtime.GC()
	// garbage of the size classes the decoder uses, filled with a pattern
	c06Sink = c06Sink[:0]
	for _, n := range []int{8, 16, 24, 32, 48, 64, 96, 128, 208, 256, 320, 512, 1024, 1536, 2048, 2048, 2048, 2688, 4096} {
		for rep := 0; rep < 6; rep++ {
			g := make([]byte, n)
			for i := range g {
				g[i] = 0xD7
			}
			c06Sink = append(c06Sink, g)
		}
	}
	c.Step("epoch verify %d live objects", len(c06Live))
	checked := 0
	for _, l := range c06Live {
		if l == nil {
			continue
		}
		checked++
		if d := verifyLive(l); d != "" {
			c.Violation("memory-changed", "C06/memory-changed", "memory of the object decoded in case %d changed after buffer overwrite / further decodes / GC: %s (type %s)", l.idx, d, l.s.Describe())
			continue
		}
		if !bytes.Equal(l.canon, ref.Canon(l.s, l.v.Elem(), ref.CmpOpts{})) {
			c.Violation("value-changed", "C06/value-changed", "value of the object decoded in case %d changed after buffer overwrite / further decodes / GC (type %s)", l.idx, l.s.Describe())
		}
	}
	c.Count("live_objects_verified", int64(checked))
	c.Sample(map[string]interface{}{"type": s.Describe(), "pieces": len(o.pieces), "msg": hexClip(msg)})
}

// runC06NoCopy: objects with nocopy fields may view the input, but their pieces
// (up to capacity) must still be aligned and pairwise disjoint, and every piece
// that is not a nocopy view must stay out of the buffer.
func runC06NoCopy(c *harness.Ctx, r *gen.Rand, poison bool) {
	tc := gen.DefaultTypeCfg()
	tc.NoCopy = true
	tc.BigIDs = false
	s := gen.RandomStruct(r, tc, 0)
	vc := gen.DefaultValCfg()
	vc.Budget = 100
	v := gen.NewValue(r, s, vc)
	msg := ref.EncodeWith(s, v.Elem(), &ref.EncodeOpts{Order: r.Perm})
	c.Describe("nocopy-variant poison=%v type=%s msg=%s", poison, s.Describe(), hexClip(msg))
	c.Hint("nocopy:" + structSig(s))
	c.Shape("nocopy:" + s.Sig())
	c.Tag("variant:nocopy")
	setPoison(poison)
	defer setPoison(false)
	// the message sits inside a larger read buffer, as with a reused network buffer
	big := make([]byte, len(msg)+64+r.Intn(64))
	for i := range big {
		big[i] = 0xBB
	}
	in := big[:len(msg)]
	copy(in, msg)
	dst := reflect.New(s.Go)
	dr := fDecode(in, dst.Interface())
	if dr.panicked() || dr.err != nil {
		if _, _, rerr := ref.Decode(s, msg, reflect.New(s.Go).Elem()); rerr == nil {
			c.Violation("decode-failed", "C06/decode-failed", "DecodeObject failed on a well-formed message: err=%v panic=%v", dr.err, dr.pv)
		}
		return
	}
	var pieces []mon.Piece
	mon.Walk(dst.Elem(), "", &pieces)
	if p := staticPiece(s, pieces); p != nil {
		c.Violation("static", "C06/static-memory/"+p.Kind, "%s %s (%d bytes at %#x) of the decoded object lies in the program's static data, shared by every decode", p.Kind, p.Path, p.Size, p.Addr)
	}
	pieces = mon.DropStatic(pieces)
	if len(pieces) >= 3 {
		c.NonTrivial()
	}
	if a := mon.CheckAlign(pieces); a != "" {
		c.Violation("align", "C06/misaligned", "%s", a)
	}
	if d := mon.CheckDisjoint(pieces); d != "" {
		c.Violation("overlap", "C06/overlap-nocopy", "pieces of an object with nocopy fields overlap (capacity included): %s", d)
	}
	lo, hi := mon.Addr(big), mon.Addr(big)+uintptr(len(big))
	for _, p := range mon.Overlapping(pieces, lo, hi) {
		if p.End() > lo+uintptr(len(msg)) {
			c.Violation("beyond-message", "C06/piece-beyond-message", "%s %s [%d,%d) reaches beyond the %d-byte message into the rest of the caller's buffer", p.Kind, p.Path, p.Addr-lo, p.End()-lo, len(msg))
		}
	}
	c.Sample(map[string]interface{}{"type": s.Describe(), "pieces": len(pieces), "variant": "nocopy"})
}

func hasNoCopy(s *schema.Struct) bool {
	found := false
	walkSchema(s, map[*schema.Struct]bool{}, func(st *schema.Struct) {
		for _, f := range st.Fields {
			if f.NoCopy {
				found = true
			}
		}
	})
	return found
}
