// Package checks wires workloads and oracles per property. It links the code
// under test (frugal, built with -tags verif from /repo's working tree).
package checks

import (
	"bytes"
	"fmt"
	"os"
	"os/exec"
	"strconv"
	"reflect"
	"runtime"
	"syscall"
	"time"
	"runtime/debug"
	"strings"

	"github.com/cloudwego/frugal"

	"verif/harness"
	"verif/ref"
	"verif/schema"
	"verif/wire"
)

// BuildPlan says how many cases of a check run under which worker build.
type BuildPlan struct {
	Build string `json:"build"`
	Cases int    `json:"cases"`
}

// Check is one registered property check.
type Check struct {
	ID    string
	Rule  string // how cases are generated and what makes one distinct / non-trivial
	Plan  func(tier string) []BuildPlan
	Run   func(c *harness.Ctx, idx int)
	Setup func(c *harness.Ctx) // once per worker process
	// Assumptions and explanation for the evidence file.
	Assumptions []string
}

var Registry = map[string]*Check{}

func register(c *Check) { Registry[c.ID] = c }

// callResult of a guarded API call.
type callResult struct {
	n     int
	err   error
	pv    interface{} // recovered panic value, nil if none
	stack string
}

func (r *callResult) panicked() bool { return r.pv != nil }

func guard(f func()) (pv interface{}, stack string) {
	defer func() {
		if r := recover(); r != nil {
			pv = r
			stack = string(debug.Stack())
		}
	}()
	f()
	return
}

func fEncode(buf []byte, v interface{}) (r callResult) {
	r.pv, r.stack = guard(func() { r.n, r.err = frugal.EncodeObject(buf, nil, v) })
	return
}

func fSize(v interface{}) (r callResult) {
	r.pv, r.stack = guard(func() { r.n = frugal.EncodedSize(v) })
	return
}

func fDecode(b []byte, v interface{}) (r callResult) {
	r.pv, r.stack = guard(func() { r.n, r.err = frugal.DecodeObject(b, v) })
	return
}

func shortStack(s string) string {
	var keep []string
	for _, l := range strings.Split(s, "\n") {
		if strings.Contains(l, "/repo/") || strings.Contains(l, "frugal") {
			keep = append(keep, strings.TrimSpace(l))
		}
		if len(keep) >= 8 {
			break
		}
	}
	return strings.Join(keep, " | ")
}

// panicSig abstracts an API panic into a signature component.
func panicSig(r callResult) string { return harness.PanicClass(r.pv) }

// fresh returns a pointer to a new destination of s, default-initialised when
// the type declares defaults (as generated code does before decoding).
func fresh(s *schema.Struct) reflect.Value {
	p := reflect.New(s.Go)
	ref.InitDefault(s, p.Elem())
	return p
}

func hexClip(b []byte) string {
	if len(b) > 96 && os.Getenv("VERIF_DEBUG") == "" {
		return fmt.Sprintf("%x…(%d bytes)", b[:96], len(b))
	}
	return fmt.Sprintf("%x", b)
}

// firstDiff returns the index of the first differing byte.
func firstDiff(a, b []byte) int {
	n := len(a)
	if len(b) < n {
		n = len(b)
	}
	for i := 0; i < n; i++ {
		if a[i] != b[i] {
			return i
		}
	}
	return n
}

// fieldSigs returns the type signatures of a struct's fields (for violation
// signatures of single-field matrix structs this is the cell).
func structSig(s *schema.Struct) string {
	if len(s.Fields) == 1 {
		return s.Fields[0].T.SigShallow()
	}
	return "composite"
}

func plainOnly(quick, thorough int) func(string) []BuildPlan {
	return func(tier string) []BuildPlan {
		if tier == "thorough" {
			return []BuildPlan{{"plain", thorough}}
		}
		return []BuildPlan{{"plain", quick}}
	}
}

func wireCanon(b []byte) ([]byte, error) { return wire.Canon(b) }

// runSub runs the worker binary in -sub mode with a generous wall-clock limit.
// hung reports that the limit fired (the child is killed with SIGQUIT so that its
// goroutine dump lands in stderr).
func runSub(spec string, env []string, limit time.Duration) (stdout, stderr []byte, err error, hung bool) {
	exe, _ := os.Executable()
	cmd := exec.Command(exe, "-sub", spec)
	if env != nil {
		cmd.Env = env
	}
	var out, errb bytes.Buffer
	cmd.Stdout, cmd.Stderr = &out, &errb
	// the child must not outlive this worker (a blocked child would stay for ever): it gets
	// SIGKILL when the thread that started it ends, and that thread is pinned until the child
	// has been waited for, so this only happens when the worker process itself dies
	cmd.SysProcAttr = &syscall.SysProcAttr{Pdeathsig: syscall.SIGKILL}
	started := make(chan error, 1)
	done := make(chan error, 1)
	go func() {
		runtime.LockOSThread()
		defer runtime.UnlockOSThread()
		e := cmd.Start()
		started <- e
		if e == nil {
			done <- cmd.Wait()
		}
	}()
	if err = <-started; err != nil {
		return nil, nil, err, false
	}
	deadline := time.After(limit)
	tick := time.NewTicker(5 * time.Second)
	defer tick.Stop()
	lastCPU, idle := int64(-1), 0
	stalled := false
wait:
	for {
		select {
		case err = <-done:
			break wait
		case <-tick.C:
			// a child that consumes no CPU time at all for 150 s is not slow, it is blocked
			cpu := procCPUTicks(cmd.Process.Pid)
			if cpu >= 0 && cpu == lastCPU {
				idle++
			} else {
				idle = 0
			}
			lastCPU = cpu
			if idle < 30 {
				continue
			}
			stalled = true
		case <-deadline:
		}
		hung = true
		cmd.Process.Signal(syscall.SIGQUIT)
		select {
		case err = <-done:
		case <-time.After(10 * time.Second):
			cmd.Process.Kill()
			err = <-done
		}
		break wait
	}
	if stalled {
		errb.WriteString(subStalledMark)
	}
	return out.Bytes(), errb.Bytes(), err, hung
}

const subStalledMark = "\n[verif] child process stalled: it consumed no CPU time for 150 s (all goroutines blocked)\n"

// subStalled reports whether runSub ended the child because it was blocked (as opposed to slow).
func subStalled(stderr []byte) bool { return bytes.Contains(stderr, []byte(subStalledMark)) }

// procCPUTicks returns utime+stime of a process in clock ticks, or -1.
func procCPUTicks(pid int) int64 {
	b, err := os.ReadFile(fmt.Sprintf("/proc/%d/stat", pid))
	if err != nil {
		return -1
	}
	// fields after the parenthesised command name
	i := bytes.LastIndexByte(b, ')')
	if i < 0 {
		return -1
	}
	f := strings.Fields(string(b[i+1:]))
	if len(f) < 13 {
		return -1
	}
	ut, e1 := strconv.ParseInt(f[11], 10, 64)
	st, e2 := strconv.ParseInt(f[12], 10, 64)
	if e1 != nil || e2 != nil {
		return -1
	}
	return ut + st
}
