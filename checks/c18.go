package checks

import (
	"fmt"
	"reflect"
	"runtime"
	"runtime/debug"

	"github.com/cloudwego/frugal"

	"verif/gen"
	"verif/harness"
	"verif/ref"
)

func init() {
	register(&Check{
		ID:   "C18",
		Rule: "case = (struct type, value) from the C01 corpus (every map key/value cell at 0/1/2/8/9/14/27/53/105/209 entries, every list/set cell, nested containers, by-value and pointer structs, non-empty unknown-field holders, static zoo types, random composites). After one warm-up call, runtime.MemStats.Mallocs is read around K=50 calls of EncodedSize(ptr) and around K=50 calls of EncodeObject(buf>=size, nil, ptr) in a plain-build child with GC off; up to 5 attempts, the same for calls alternating with the previous case's type; violation iff the minimum delta over the attempts is > 0 (a real regression allocates on every call, sporadic runtime noise does not); in every fourth case (thorough: every 32nd) also the first call after two forced garbage collections (3 attempts). distinct = distinct type-shape signature; non-trivial = the message has at least one field",
		Plan: func(tier string) []BuildPlan {
			if tier == "thorough" {
				return []BuildPlan{{"plain", encEnumerated + 400000}}
			}
			return []BuildPlan{{"plain", encEnumerated + 1500}}
		},
		Setup: func(c *harness.Ctx) { debug.SetGCPercent(-1) },
		Run:   runC18,
		Assumptions: []string{
			"measured with the verif build tag on: no hook lies on the pointer-argument EncodedSize/EncodeObject path, so the measured code is the code users run",
			"Go toolchain of the sandbox (go1.23): escape analysis decisions are toolchain specific",
		},
	})
}

var (
	c18PrevPtr interface{}
	c18PrevBuf []byte
)

func mallocs() uint64 {
	var ms runtime.MemStats
	runtime.ReadMemStats(&ms)
	return ms.Mallocs
}

func runC18(c *harness.Ctx, idx int) {
	if idx%200 == 0 {
		runtime.GC() // GC is off during measurements; keep the heap bounded
	}
	r := c.Rand(idx)
	cc := encCase(c, r, idx)
	want := describeCase(c, cc)
	if len(want) > 1 {
		c.NonTrivial()
	}
	sig := structSig(cc.S)
	ptr := cc.V.Interface()
	buf := make([]byte, len(want)+64)
	// warm-up (first use of the type registers descriptors); in every other case the
	// type's very first use is through a by-value argument, pointer calls follow
	if idx%2 == 1 {
		c.Tag("history:by-value-first")
		fSize(cc.V.Elem().Interface())
	}
	if sz := fSize(ptr); sz.panicked() {
		c.Violation("size-panic", "C18/size-panic/"+sig, "EncodedSize panicked: %v", sz.pv)
		return
	}
	if er := fEncode(buf, ptr); er.panicked() || er.err != nil {
		c.Violation("encode-failed", "C18/encode-failed/"+sig, "EncodeObject failed: err=%v panic=%v", er.err, er.pv)
		return
	}
	const K = 50
	measure := func(f func()) uint64 {
		min := ^uint64(0)
		for attempt := 0; attempt < 5 && min > 0; attempt++ {
			m0 := mallocs()
			for k := 0; k < K; k++ {
				f()
			}
			if d := mallocs() - m0; d < min {
				min = d
			}
		}
		return min
	}
	sink := 0
	if d := measure(func() { sink += frugal.EncodedSize(ptr) }); d > 0 {
		c.Violation("size-allocates", "C18/size-allocates/"+sig, "EncodedSize(ptr) allocates: at least %d heap objects per %d calls in every one of 5 attempts (type %s)", d, K, cc.S.Sig())
	}
	if d := measure(func() { n, _ := frugal.EncodeObject(buf, nil, ptr); sink += n }); d > 0 {
		c.Violation("encode-allocates", "C18/encode-allocates/"+sig, "EncodeObject(buf, nil, ptr) allocates: at least %d heap objects per %d calls in every one of 5 attempts (type %s)", d, K, cc.S.Sig())
	}
	if (c.Tier != "thorough" && idx%4 == 0) || idx%32 == 0 { // (forced collections are costly in long-lived thorough workers)
		// "after first use" holds across garbage collections as well: scratch objects parked
		// in pools the collector empties would have to be allocated again
		gcMeasure := func(f func()) uint64 {
			min := ^uint64(0)
			for attempt := 0; attempt < 3 && min > 0; attempt++ {
				runtime.GC()
				runtime.GC()
				m0 := mallocs()
				f()
				if d := mallocs() - m0; d < min {
					min = d
				}
			}
			return min
		}
		if d := gcMeasure(func() { sink += frugal.EncodedSize(ptr) }); d > 0 {
			c.Violation("size-allocates", "C18/size-allocates-after-gc", "EncodedSize(ptr) on an already used type allocates %d heap objects in the first call after a garbage collection, in every one of 3 attempts (type %s)", d, cc.S.Sig())
		}
		if d := gcMeasure(func() { n, _ := frugal.EncodeObject(buf, nil, ptr); sink += n }); d > 0 {
			c.Violation("encode-allocates", "C18/encode-allocates-after-gc", "EncodeObject(buf, nil, ptr) on an already used type allocates %d heap objects in the first call after a garbage collection, in every one of 3 attempts (type %s)", d, cc.S.Sig())
		}
		c.Tag("variant:after-gc")
	}
	if idx%8 == 3 {
		// a value decoded with nocopy fields views its input buffer; writing it back into that
		// very buffer (decode, patch, re-encode in place) is allocation-free like any other call
		tc := gen.DefaultTypeCfg()
		tc.NoCopy = true
		tc.BigIDs = false
		tc.MaxDepth = 2
		ns := gen.RandomStruct(r, tc, 0)
		if hasNoCopy(ns) {
			nv := gen.NewValue(r, ns, gen.DefaultValCfg())
			nwant := ref.Encode(ns, nv.Elem())
			nbuf := make([]byte, 4*len(nwant)+4096) // the decoded value may encode longer (nil struct pointers come back as structs with their default fields)
			if er := fEncode(nbuf, nv.Interface()); !er.panicked() && er.err == nil {
				dst := reflect.New(ns.Go)
				if dr := fDecode(nbuf[:er.n], dst.Interface()); !dr.panicked() && dr.err == nil {
					dp := dst.Interface()
					if sz := fSize(dp); sz.panicked() || sz.n > len(nbuf) {
						c.Tag("skipped:in-place-buffer-too-small")
					} else if wr := fEncode(nbuf, dp); wr.panicked() || wr.err != nil { // warm-up
						c.Violation("encode-failed", "C18/in-place-encode-failed", "re-encoding a decoded nocopy value into its own input buffer (size %d, buffer %d): n=%d err=%v panic=%v type=%s", sz.n, len(nbuf), wr.n, wr.err, wr.pv, ns.Describe())
					} else if d := measure(func() { n, _ := frugal.EncodeObject(nbuf, nil, dp); sink += n }); d > 0 {
						c.Violation("encode-allocates", "C18/encode-allocates-in-place", "EncodeObject of a value whose nocopy fields view the destination buffer allocates: at least %d heap objects per %d calls in every one of 5 attempts (type %s)", d, K, ns.Sig())
					}
					c.Tag("variant:nocopy-in-place")
				}
			}
		}
	}
	// alternating between two already used types must not allocate either
	if c18PrevPtr != nil {
		prev, pbuf := c18PrevPtr, c18PrevBuf
		if d := measure(func() { sink += frugal.EncodedSize(prev) + frugal.EncodedSize(ptr) }); d > 0 {
			c.Violation("size-allocates", "C18/size-allocates-alternating", "EncodedSize allocates when calls alternate between two already used types: at least %d heap objects per %d alternations in every one of 5 attempts (types %s and the previous case's)", d, K, cc.S.Sig())
		}
		if d := measure(func() {
			n1, _ := frugal.EncodeObject(pbuf, nil, prev)
			n2, _ := frugal.EncodeObject(buf, nil, ptr)
			sink += n1 + n2
		}); d > 0 {
			c.Violation("encode-allocates", "C18/encode-allocates-alternating", "EncodeObject allocates when calls alternate between two already used types: at least %d heap objects per %d alternations in every one of 5 attempts", d, K)
		}
	}
	c18PrevPtr, c18PrevBuf = ptr, buf
	c.Count("calls_measured", 2*K)
	_ = ref.Encode
	c.Sample(map[string]string{"type": cc.S.Describe(), "bytes": fmt.Sprint(len(want))})
}
