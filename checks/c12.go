package checks

import (
	"fmt"
	"reflect"
	"strings"

	"verif/gen"
	"verif/harness"
	"verif/ref"
	"verif/schema"
	"verif/wire"
	"verif/zoo"
)

func init() {
	register(&Check{
		ID:   "C12",
		Rule: "case = (schema IR, spelling): a random struct schema (all id classes, three requiredness words, nested annotations to depth 3, nocopy option, ignored untagged/unexported fields) is rendered into struct tags in one of 10 spellings (canonical frugal; thrift tag with name prefix; both tags with a conflicting thrift tag; scalar annotations omitted; id-only tags; byte for i8; package-qualified struct/enum names; spaces around every token, in frugal and in thrift tags; decimal ids with leading zeros; scalars annotated with their Go type name int8/int16/int32/int64/float64) and built as a fresh Go type, next to the canonically spelled type of the same IR. Oracles: the harness' own tag parser reads the spelled type back to the IR (generator self-check); EncodeObject bytes equal the reference encoder driven by the IR; DecodeObject equals the reference decoder; the spelled and the canonical type produce identical bytes and decode identically; ignored fields are neither written nor touched. Static zoo spellings (Spelling, ThriftOnly, BothTags, Ignoring) are included. distinct = distinct (type shape, spelling); non-trivial = the spelling differs textually from the canonical one in at least one tag",
		Plan: func(tier string) []BuildPlan {
			if tier == "thorough" {
				return []BuildPlan{{"plain", 800000}, {"checkptr", 160000}}
			}
			return []BuildPlan{{"plain", 4000}, {"checkptr", 1500}}
		},
		Run: runC12,
	})
}

var c12Spellings = []string{"canonical", "thrift", "both-conflict", "omit-scalar-annot", "id-only", "byte", "pkg-qualified", "spaces", "thrift-spaces", "zero-padded-id", "go-type-name"}

// annot renders a type annotation in the given spelling.
func annot(r *gen.Rand, t *schema.Type, sp string) string {
	sep := func(s string) string {
		if sp == "spaces" || sp == "thrift-spaces" {
			return strings.Repeat(" ", r.Intn(3)) + s + strings.Repeat(" ", r.Intn(3))
		}
		return s
	}
	if sp == "go-type-name" && t.GoNamed == nil {
		// a scalar annotated with the name of its own Go type (accepted through the type-name path)
		switch t.K {
		case schema.I8:
			return "int8"
		case schema.I16:
			return "int16"
		case schema.I32:
			return "int32"
		case schema.I64:
			return "int64"
		case schema.Double:
			return "float64"
		}
	}
	switch t.K {
	case schema.I8:
		if sp == "byte" {
			return "byte"
		}
		return "i8"
	case schema.Enum:
		if sp == "pkg-qualified" {
			return "zoo" + sep(".") + t.EnumName
		}
		return t.EnumName
	case schema.StructK:
		if sp == "pkg-qualified" && t.S.Go.Name() != "" {
			return "zoo" + sep(".") + t.S.Name
		}
		return t.S.Name
	case schema.List:
		return "list" + sep("<") + annot(r, t.Elem, sp) + sep(">")
	case schema.Set:
		return "set" + sep("<") + annot(r, t.Elem, sp) + sep(">")
	case schema.Map:
		return "map" + sep("<") + annot(r, t.Key, sp) + sep(":") + annot(r, t.Elem, sp) + sep(">")
	}
	return t.K.String()
}

// needsAnnot reports whether the annotation may be omitted for t.
func annotOptional(t *schema.Type) bool {
	switch t.K {
	case schema.List, schema.Set, schema.Enum:
		return false
	case schema.Map:
		return annotOptional(t.Key) && annotOptional(t.Elem)
	}
	return true
}

func spellTag(r *gen.Rand, f *schema.Field, sp string) string {
	pad := func(s string) string {
		if sp == "spaces" || sp == "thrift-spaces" {
			return strings.Repeat(" ", r.Intn(3)) + s + strings.Repeat(" ", r.Intn(3))
		}
		return s
	}
	id := fmt.Sprint(f.ID)
	if sp == "zero-padded-id" {
		id = fmt.Sprintf("%0*d", 2+r.Intn(5), f.ID) // decimal with leading zeros is still that decimal id
	}
	els := []string{pad(id), pad(f.Req.String()), pad(annot(r, f.T, sp))}
	switch sp {
	case "omit-scalar-annot":
		if annotOptional(f.T) && !f.NoCopy {
			els = els[:2]
		} else if annotOptional(f.T) {
			els[2] = ""
		}
	case "id-only":
		if annotOptional(f.T) && !f.NoCopy && f.Req == schema.Default {
			els = els[:1]
		}
	}
	if f.NoCopy {
		els = append(els, pad("nocopy"))
	}
	body := strings.Join(els, ",")
	switch sp {
	case "thrift":
		return `json:"x" thrift:"` + strings.ToLower(f.Name) + `,` + body + `"`
	case "thrift-spaces":
		return `thrift:"` + pad(strings.ToLower(f.Name)) + `,` + body + `"`
	case "both-conflict":
		// the thrift tag disagrees on id and requiredness: the frugal tag must win
		other := fmt.Sprintf("%d,%s", (int(f.ID)+7)%65536, schema.Req((int(f.Req)+1)%3))
		if r.Bool() {
			return `thrift:"n,` + other + `" frugal:"` + body + `"`
		}
		return `frugal:"` + body + `" thrift:"n,` + other + `"`
	}
	return `frugal:"` + body + `"`
}

// respell clones struct schema s (sharing nested struct types) with every tag
// rendered in spelling sp.
func respell(r *gen.Rand, s *schema.Struct, sp string) (*schema.Struct, bool) {
	n := &schema.Struct{UnknownIdx: -1, HasUnknown: s.HasUnknown, Extras: s.Extras}
	differs := false
	for _, f := range s.Fields {
		nf := &schema.Field{ID: f.ID, Req: f.Req, T: f.T, NoCopy: f.NoCopy, Name: schema.UniqueName("F")}
		nf.Tag = spellTag(r, nf, sp)
		if nf.Tag != schema.TagFor(nf) {
			differs = true
		}
		n.Fields = append(n.Fields, nf)
	}
	n.GoOrder = s.GoOrder
	n.Build()
	return n, differs
}

var c12Zoo = []interface{}{&zoo.Spelling{}, &zoo.ThriftOnly{}, &zoo.BothTags{}, &zoo.Ignoring{}}

func runC12(c *harness.Ctx, idx int) {
	r := c.Rand(idx)
	if idx%25 == 0 {
		runC12Zoo(c, r, c12Zoo[(idx/25)%len(c12Zoo)])
		return
	}
	sp := c12Spellings[idx%len(c12Spellings)]
	tc := gen.DefaultTypeCfg()
	tc.NoCopy = r.Chance(1, 3)
	tc.BigIDs = r.Chance(1, 5)
	tc.MaxDepth = 3
	canon := gen.RandomStruct(r, tc, 0)
	spelled, differs := respell(r, canon, sp)
	var tags []string
	for _, f := range spelled.Fields {
		tags = append(tags, f.Tag)
	}
	c.Describe("spelling=%s type=%s tags=%v", sp, canon.Describe(), tags)
	c.Hint(sp)
	c.Tag("spelling:" + sp)
	c.Shape(canon.Sig())
	c.Shape(sp)
	if differs {
		c.NonTrivial()
	}
	// generator self-check: our own parser reads the spelled tags back to the IR
	back, err := schema.FromGo(spelled.Go)
	if err != nil {
		panic(fmt.Sprintf("C12 generator: own tag parser rejects spelled type: %v tags=%v", err, tags))
	}
	if ok, why := schema.Equal(spelled, back); !ok {
		panic(fmt.Sprintf("C12 generator: own tag parser disagrees with the IR: %s tags=%v", why, tags))
	}
	vc := gen.DefaultValCfg()
	vc.Budget = 80
	cv := gen.NewValue(r, canon, vc)
	want := ref.Encode(canon, cv.Elem())
	// the same logical value in the spelled type
	sv := reflect.New(spelled.Go)
	if _, _, derr := ref.Decode(spelled, want, sv.Elem()); derr != nil {
		c.Tag("skipped:value-not-transferable")
		return
	}
	for _, e := range spelled.Extras {
		// ignored fields get recognisable content
		fv := sv.Elem().Field(e.Index)
		if fv.CanSet() && fv.Kind() == reflect.Int32 {
			fv.SetInt(0x1badf00d)
		}
	}
	before := ref.Canon(spelled, sv.Elem(), ref.CmpOpts{})
	wantS := ref.Encode(spelled, sv.Elem())
	buf := make([]byte, len(wantS)+64)
	er := fEncode(buf, sv.Interface())
	if er.panicked() || er.err != nil {
		c.Violation("rejected", "C12/rejected/"+sp, "EncodeObject failed on spelling %s: err=%v panic=%v tags=%v", sp, er.err, er.pv, tags)
		return
	}
	out := buf[:er.n]
	if !sameUpToMapOrder(out, wantS) {
		co, _ := wire.Canon(out)
		cw, _ := wire.Canon(wantS)
		c.Violation("bytes", "C12/bytes/"+sp, "spelling %s: output differs from the schema the tags declare (canonical offset %d): out=%s ref=%s tags=%v", sp, firstDiff(co, cw), hexClip(co), hexClip(cw), tags)
		return
	}
	// canonical twin produces the same bytes
	// (the same normalised logical value: decoded from the same reference bytes)
	cv2 := reflect.New(canon.Go)
	ref.Decode(canon, want, cv2.Elem())
	bufC := make([]byte, len(wantS)+64)
	ec := fEncode(bufC, cv2.Interface())
	if ec.panicked() || ec.err != nil {
		c.Violation("rejected", "C12/canonical-rejected", "EncodeObject failed on the canonical spelling: err=%v panic=%v", ec.err, ec.pv)
		return
	}
	if !sameUpToMapOrder(out, bufC[:ec.n]) {
		c.Violation("equivalence", "C12/spellings-differ/"+sp, "spelling %s and the canonical spelling of the same schema encode differently", sp)
	}
	// decoding
	msg := ref.EncodeWith(canon, cv.Elem(), &ref.EncodeOpts{Order: r.Perm})
	exp, act := prefillPair(r, spelled)
	_, info, rerr := ref.Decode(spelled, msg, exp.Elem())
	if rerr != nil || info.DupKey {
		return
	}
	dr := fDecode(msg, act.Interface())
	if dr.panicked() || dr.err != nil {
		c.Violation("decode", "C12/decode-failed/"+sp, "DecodeObject failed on spelling %s: err=%v panic=%v tags=%v", sp, dr.err, dr.pv, tags)
		return
	}
	if d := ref.Diff(spelled, exp.Elem(), act.Elem(), ref.CmpOpts{}); d != "" {
		c.Violation("decode", "C12/decode-differs/"+sp, "spelling %s decodes differently from the schema its tags declare: %s tags=%v", sp, d, tags)
	}
	if after := ref.Canon(spelled, sv.Elem(), ref.CmpOpts{}); string(after) != string(before) {
		c.Violation("ignored", "C12/value-changed", "encoding changed the value (ignored fields?)")
	}
	c.Sample(map[string]interface{}{"spelling": sp, "tags": tags, "bytes": hexClip(out)})
}

func runC12Zoo(c *harness.Ctx, r *gen.Rand, z interface{}) {
	s := gen.Zoo(z)
	c.Describe("zoo spelling type=%s", s.Describe())
	c.Hint("zoo:" + s.Name)
	c.Tag("spelling:zoo:" + s.Name)
	c.Shape("zoo:" + s.Name)
	c.NonTrivial()
	v := gen.NewValue(r, s, gen.DefaultValCfg())
	if ig, ok := v.Interface().(*zoo.Ignoring); ok {
		ig.Untagged = "must-not-travel"
		ig.SetPrivate(0x5eed)
		ig.Hidden = 77
		ig.JSONOnly = 2.5
	}
	want := ref.Encode(s, v.Elem())
	buf := make([]byte, len(want)+64)
	er := fEncode(buf, v.Interface())
	if er.panicked() || er.err != nil {
		c.Violation("rejected", "C12/zoo-rejected/"+s.Name, "EncodeObject failed on zoo type %s: err=%v panic=%v", s.Name, er.err, er.pv)
		return
	}
	if !sameUpToMapOrder(buf[:er.n], want) {
		c.Violation("bytes", "C12/zoo-bytes/"+s.Name, "zoo type %s: output %s differs from the schema its tags declare %s", s.Name, hexClip(buf[:er.n]), hexClip(want))
		return
	}
	msg := ref.EncodeWith(s, v.Elem(), &ref.EncodeOpts{Order: r.Perm})
	exp, act := prefillPair(r, s)
	if ig, ok := act.Interface().(*zoo.Ignoring); ok {
		ig.Untagged, ig.Hidden, ig.JSONOnly = "keep", 5, 1.25
		ig.SetPrivate(9)
		e := exp.Interface().(*zoo.Ignoring)
		e.Untagged, e.Hidden, e.JSONOnly = "keep", 5, 1.25
		e.SetPrivate(9)
	}
	if _, _, rerr := ref.Decode(s, msg, exp.Elem()); rerr != nil {
		return
	}
	dr := fDecode(msg, act.Interface())
	if dr.panicked() || dr.err != nil {
		c.Violation("decode", "C12/zoo-decode-failed/"+s.Name, "DecodeObject failed: err=%v panic=%v", dr.err, dr.pv)
		return
	}
	if d := ref.Diff(s, exp.Elem(), act.Elem(), ref.CmpOpts{}); d != "" {
		c.Violation("decode", "C12/zoo-decode-differs/"+s.Name, "zoo type %s decodes differently from its tags: %s", s.Name, d)
	}
	if ig, ok := act.Interface().(*zoo.Ignoring); ok {
		if ig.Untagged != "keep" || ig.Hidden != 5 || ig.JSONOnly != 1.25 || ig.Private() != 9 {
			c.Violation("ignored", "C12/ignored-touched", "decoding touched an untagged/unexported/embedded field: %+v", *ig)
		}
	}
	c.Sample(map[string]string{"zoo": s.Name, "bytes": hexClip(buf[:er.n])})
}
