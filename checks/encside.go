package checks

import (
	"bytes"
	"fmt"
	"reflect"
	"unsafe"

	"verif/gen"
	"verif/harness"
	"verif/mon"
	"verif/ref"
	"verif/schema"
	"verif/wire"
	"verif/xthrift"
)

func encPlan(quickRandom, thoroughRandom int) func(string) []BuildPlan {
	return func(tier string) []BuildPlan {
		if tier == "thorough" {
			return []BuildPlan{
				{"plain", encEnumerated + thoroughRandom},
				{"checkptr", encEnumerated + thoroughRandom/2},
				{"asan", encEnumerated + thoroughRandom/10},
				{"race", encEnumerated + thoroughRandom/20},
			}
		}
		return []BuildPlan{{"plain", encEnumerated + quickRandom}, {"checkptr", encEnumerated + quickRandom/2}}
	}
}

func describeCase(c *harness.Ctx, cc *corpusCase) []byte {
	want := ref.Encode(cc.S, cc.V.Elem())
	c.Describe("%s type=%s refbytes=%s", cc.Class, cc.S.Describe(), hexClip(want))
	tagCase(c, cc)
	return want
}

func init() {
	register(&Check{
		ID:   "C01",
		Rule: "case = (struct type, value) from the enumerated matrices (126 map cells x 11 entry counts incl. nil and the Go map growth thresholds, 28 list/set cells x 13 lengths + allocator-threshold lengths, 18 field-id classes x 3 requiredness, requiredness x pointer x kind, 17 string lengths, static zoo types) followed by seeded random composite types; distinct = distinct type-shape signature (kinds, pointer-ness, requiredness, nesting two struct levels deep); non-trivial = the encoded message has at least one field",
		Plan: encPlan(2500, 400000),
		Run:  runC01,
	})
	register(&Check{
		ID:   "C02",
		Rule: "same corpus as C01; every output is parsed by the schema-less parser, compared byte-wise with the reference encoder after sorting map entries, and copied through Apache Thrift's TBinaryProtocol; distinct = distinct type-shape signature; non-trivial = message has at least one field",
		Plan: encPlan(2500, 400000),
		Run:  runC02,
	})
	register(&Check{
		ID:   "C04",
		Rule: "same corpus as C01; per value: EncodedSize by pointer and by value, EncodeObject into an exact-size canary buffer, then every shorter length when size<=512 else all field boundaries +-1 and 64 random lengths, plus a run with the buffer right-aligned against a guard page; distinct = distinct type-shape signature; non-trivial = size>1",
		Plan: encPlan(1500, 150000),
		Run:  runC04,
	})
	register(&Check{
		ID:   "C16",
		Rule: "same corpus as C01; deep canonical snapshot of the value before/after EncodedSize and EncodeObject (pointer and by-value argument), canaries around buf[:n] with spare capacity, second encoding compared up to map order, a further size/encode pass with the value's scalar arrays, binaries and strings moved into write-protected memory (any store faults), decode input in a read-only guard-page mapping; distinct = distinct type-shape signature; non-trivial = message has at least one field",
		Plan: encPlan(2000, 200000),
		Run:  runC16,
	})
}

func valSnapshot(s *schema.Struct, v reflect.Value) []byte {
	return ref.Canon(s, v, ref.CmpOpts{})
}

func runC01(c *harness.Ctx, idx int) {
	r := c.Rand(idx)
	cc := encCase(c, r, idx)
	want := describeCase(c, cc)
	if len(want) > 1 {
		c.NonTrivial()
	}
	s := cc.S
	sig := structSig(s)
	buf := make([]byte, 2*len(want)+1024) // generous: C01 judges the round trip, not the size
	er := fEncode(buf, cc.V.Interface())
	if er.panicked() {
		c.Violation("encode-panic", "C01/encode-panic/"+panicSig(er)+"/"+sig, "EncodeObject panicked: %v [%s]", er.pv, shortStack(er.stack))
		return
	}
	if er.err != nil {
		c.Violation("encode-error", "C01/encode-error/"+sig, "EncodeObject failed on an accepted type: %v", er.err)
		return
	}
	msg := buf[:er.n]
	dst := fresh(s)
	// every other case decodes under the pool sanitizer: recycled scratch objects
	// hold the worst a predecessor could have left, so a missing reset shows now
	setPoison(idx%2 == 1)
	dr := fDecode(msg, dst.Interface())
	setPoison(false)
	if dr.panicked() {
		c.Violation("decode-panic", "C01/decode-panic/"+panicSig(dr)+"/"+sig, "DecodeObject panicked on frugal's own output: %v [%s] msg=%s", dr.pv, shortStack(dr.stack), hexClip(msg))
		return
	}
	if dr.err != nil {
		c.Violation("decode-error", "C01/decode-error/"+sig, "DecodeObject failed on frugal's own output: %v msg=%s", dr.err, hexClip(msg))
		return
	}
	if dr.n != er.n {
		c.Violation("consumed", "C01/consumed/"+sig, "decode consumed %d of %d bytes", dr.n, er.n)
	}
	o := ref.CmpOpts{RoundTrip: true, LenientDouble: true}
	if d := ref.Diff(s, cc.V.Elem(), dst.Elem(), o); d != "" {
		fs := ref.FieldDiffSig(s, cc.V.Elem(), dst.Elem(), o)
		c.Violation("roundtrip", "C01/roundtrip/"+fs, "decoded value differs from the original: %s msg=%s", d, hexClip(msg))
	}
	c.Sample(map[string]string{"type": s.Describe(), "bytes": hexClip(msg)})
}

func runC02(c *harness.Ctx, idx int) {
	r := c.Rand(idx)
	cc := encCase(c, r, idx)
	want := describeCase(c, cc)
	if len(want) > 1 {
		c.NonTrivial()
	}
	s := cc.S
	sig := structSig(s)
	buf := make([]byte, len(want)+64)
	er := fEncode(buf, cc.V.Interface())
	if er.panicked() {
		c.Violation("encode-panic", "C02/encode-panic/"+panicSig(er)+"/"+sig, "EncodeObject panicked: %v [%s]", er.pv, shortStack(er.stack))
		return
	}
	if er.err != nil {
		c.Violation("encode-error", "C02/encode-error/"+sig, "EncodeObject failed on an accepted type (reference encoding has %d bytes): %v", len(want), er.err)
		return
	}
	msg := buf[:er.n]
	checkWireAgainstRef(c, "C02", s, sig, msg, want)
	c.Sample(map[string]string{"type": s.Describe(), "bytes": hexClip(msg)})
}

// checkWireAgainstRef applies the three C02 oracles to an encoder output.
func checkWireAgainstRef(c *harness.Ctx, prop string, s *schema.Struct, sig string, msg, want []byte) bool {
	pr := wire.Parse(msg)
	if pr.Verdict == wire.Malformed {
		c.Violation("wellformed", prop+"/malformed/"+sig, "output is not a well-formed struct: %s at %d; out=%s ref=%s", pr.Reason, pr.ErrOff, hexClip(msg), hexClip(want))
		return false
	}
	if pr.N != len(msg) {
		c.Violation("wellformed", prop+"/trailing/"+sig, "top-level struct ends at %d but %d bytes were written", pr.N, len(msg))
		return false
	}
	cf, _ := wire.Canon(msg)
	cw, err := wire.Canon(want)
	if err != nil {
		panic("reference encoder produced a malformed message: " + err.Error())
	}
	ok := true
	if !bytes.Equal(cf, cw) {
		i := firstDiff(cf, cw)
		c.Violation("bytes-vs-ref", prop+"/bytes-differ/"+sig, "bytes differ from the reference encoding (canonical offset %d, lens %d vs %d): out=%s ref=%s", i, len(cf), len(cw), hexClip(cf), hexClip(cw))
		ok = false
	}
	cp, consumed, err := xthrift.Copy(msg)
	switch {
	case err != nil:
		c.Violation("apache", prop+"/apache-error/"+sig, "Apache TBinaryProtocol cannot read the output: %v out=%s", err, hexClip(msg))
		ok = false
	case consumed != len(msg):
		c.Violation("apache", prop+"/apache-length/"+sig, "Apache consumed %d of %d bytes", consumed, len(msg))
		ok = false
	case !bytes.Equal(cp, msg):
		c.Violation("apache", prop+"/apache-value/"+sig, "Apache reads a different value (first difference at %d)", firstDiff(cp, msg))
		ok = false
	}
	return ok
}

func runC04(c *harness.Ctx, idx int) {
	r := c.Rand(idx)
	cc := encCase(c, r, idx)
	want := describeCase(c, cc)
	s := cc.S
	sig := structSig(s)
	if len(want) > 1 {
		c.NonTrivial()
	}
	sp := fSize(cc.V.Interface())
	if sp.panicked() {
		c.Violation("size-panic", "C04/size-panic/"+panicSig(sp)+"/"+sig, "EncodedSize(ptr) panicked on an accepted type: %v [%s]", sp.pv, shortStack(sp.stack))
		return
	}
	sv := fSize(cc.V.Elem().Interface())
	if sv.panicked() {
		c.Violation("size-panic", "C04/size-panic-byvalue/"+panicSig(sv)+"/"+sig, "EncodedSize(value) panicked: %v [%s]", sv.pv, shortStack(sv.stack))
		return
	}
	if sp.n != sv.n {
		c.Violation("size-ptr-vs-value", "C04/size-ptr-vs-value/"+sig, "EncodedSize(ptr)=%d but EncodedSize(value)=%d", sp.n, sv.n)
	}
	// generous buffer first: how many bytes does the encoder really write?
	big := mon.NewCanary(len(want)+256, len(want)+256, 0xC3)
	eb := fEncode(big.Buf, cc.V.Interface())
	if eb.panicked() || eb.err != nil {
		c.Violation("encode-failed", "C04/encode-failed/"+sig, "EncodeObject with an ample buffer failed: err=%v panic=%v", eb.err, eb.pv)
		return
	}
	n := eb.n
	if sp.n != n {
		c.Violation("size-exact", "C04/size-mismatch/"+sig, "EncodedSize=%d but EncodeObject wrote %d bytes (reference %d)", sp.n, n, len(want))
	}
	if off, ok := big.Check(n); !ok {
		c.Violation("canary", "C04/write-outside/"+sig, "byte at offset %d outside buf[:%d] was modified", off, n)
	}
	// exact buffer, spare capacity with canaries behind it
	ex := mon.NewCanary(n, n+128, 0x5A)
	ee := fEncode(ex.Buf, cc.V.Interface())
	if ee.panicked() || ee.err != nil || ee.n != n {
		c.Violation("exact-buffer", "C04/exact-buffer/"+sig, "EncodeObject with len(buf)==size: n=%d err=%v panic=%v, want n=%d", ee.n, ee.err, ee.pv, n)
	}
	if off, ok := ex.Check(n); !ok {
		c.Violation("canary", "C04/write-outside/"+sig, "exact buffer: byte at offset %d outside buf[:%d] was modified", off, n)
	}
	// exact buffer against a guard page, no spare capacity
	reg := mon.NewRegion(n)
	g := reg.Right(n)
	eg := fEncode(g, cc.V.Interface())
	if eg.panicked() || eg.err != nil || eg.n != n || !bytes.Equal(g, big.Buf[:n]) && !sameUpToMapOrder(g, big.Buf[:n]) {
		c.Violation("guard-buffer", "C04/guard-buffer/"+sig, "EncodeObject into a guard-page buffer: n=%d err=%v panic=%v", eg.n, eg.err, eg.pv)
	}
	reg.Free()
	// by-value argument
	ev := fEncode(make([]byte, n+8), cc.V.Elem().Interface())
	if ev.panicked() || ev.err != nil || ev.n != n {
		c.Violation("byvalue", "C04/encode-byvalue/"+sig, "EncodeObject(value): n=%d err=%v panic=%v, want %d", ev.n, ev.err, ev.pv, n)
	}
	// a typed nil pointer is an accepted argument as well (it is measured as the empty struct):
	// whatever EncodedSize says about it, EncodeObject must honour
	np := reflect.Zero(reflect.PtrTo(s.Go)).Interface()
	if zs := fSize(np); zs.panicked() {
		c.Violation("size-panic", "C04/size-panic-nilptr/"+panicSig(zs), "EncodedSize((*T)(nil)) panicked: %v [%s]", zs.pv, shortStack(zs.stack))
	} else {
		zb := mon.NewCanary(zs.n, zs.n+16, 0x3C)
		ze := fEncode(zb.Buf, np)
		if ze.panicked() || ze.err != nil || ze.n != zs.n {
			c.Violation("nilptr", "C04/nil-pointer-size-vs-encode", "EncodedSize((*T)(nil))=%d but EncodeObject with a buffer of that length: n=%d err=%v panic=%v", zs.n, ze.n, ze.err, ze.pv)
		} else if off, ok := zb.Check(ze.n); !ok {
			c.Violation("canary", "C04/write-outside/"+sig, "nil pointer: byte at offset %d outside buf[:%d] was modified", off, ze.n)
		}
		c.Count("nil_pointer_calls", 1)
	}
	// short buffers
	var lens []int
	if n <= 512 {
		for l := 0; l < n; l++ {
			lens = append(lens, l)
		}
	} else {
		pr := wire.Parse(big.Buf[:n])
		seen := map[int]bool{}
		add := func(l int) {
			if l >= 0 && l < n && !seen[l] {
				seen[l] = true
				lens = append(lens, l)
			}
		}
		if pr.Root != nil {
			for _, f := range pr.Root.Fields {
				add(f.HdrOff - 1)
				add(f.HdrOff)
				add(f.HdrOff + 1)
				add(f.HdrOff + 3)
			}
		}
		add(0)
		add(1)
		add(n - 1)
		add(n - 2)
		for i := 0; i < 64; i++ {
			add(r.Intn(n))
		}
	}
	c.Count("short_lengths", int64(len(lens)))
	for _, l := range lens {
		capacity := l
		switch r.Intn(3) {
		case 1:
			capacity = n + 16 // spare capacity beyond len: must still be refused and untouched
		case 2:
			capacity = l + r.Intn(n-l+1)
		}
		cb := mon.NewCanary(l, capacity, 0x77)
		es := fEncode(cb.Buf, cc.V.Interface())
		if es.panicked() {
			c.Violation("short-panic", "C04/short-panic/"+panicSig(es)+"/"+sig, "EncodeObject with len(buf)=%d<%d panicked: %v", l, n, es.pv)
			break
		}
		if es.err == nil {
			c.Violation("short-accepted", "C04/short-accepted/"+sig, "EncodeObject with len(buf)=%d < size=%d returned n=%d, nil", l, n, es.n)
			break
		}
		if off, ok := cb.Check(l); !ok {
			c.Violation("short-overrun", "C04/short-overrun", "EncodeObject with len(buf)=%d cap=%d (size %d) returned an error but modified the byte at offset %d, beyond len(buf)", l, capacity, n, off)
			break
		}
	}
}

func sameUpToMapOrder(a, b []byte) bool {
	ca, e1 := wire.Canon(a)
	cb, e2 := wire.Canon(b)
	return e1 == nil && e2 == nil && bytes.Equal(ca, cb)
}

func runC16(c *harness.Ctx, idx int) {
	r := c.Rand(idx)
	cc := encCase(c, r, idx)
	want := describeCase(c, cc)
	s := cc.S
	sig := structSig(s)
	if len(want) > 1 {
		c.NonTrivial()
	}
	spareCapacity(r, s, cc.V.Elem(), 0)
	before := valSnapshot(s, cc.V.Elem())
	var pieces []mon.Piece
	mon.Walk(cc.V.Elem(), "", &pieces)
	pieces = mon.DropStatic(pieces)
	image := mon.Image(pieces) // raw bytes of every pointee / slice up to cap / string
	c.Count("raw_pieces", int64(len(pieces)))
	check := func(step string) bool {
		if after := valSnapshot(s, cc.V.Elem()); !bytes.Equal(before, after) {
			c.Violation("value-modified", "C16/value-modified/"+step+"/"+sig, "%s modified the value it was given (canonical snapshot differs at %d)", step, firstDiff(before, after))
			return false
		}
		if d := mon.CompareImage(pieces, image); d != "" {
			c.Violation("memory-modified", "C16/memory-modified/"+step, "%s modified memory reachable from the value it was given (spare capacity included): %s", step, d)
			return false
		}
		return true
	}
	if sz := fSize(cc.V.Interface()); sz.panicked() {
		c.Violation("size-panic", "C16/size-panic/"+panicSig(sz)+"/"+sig, "EncodedSize panicked: %v", sz.pv)
		return
	}
	check("EncodedSize(ptr)")
	if sz := fSize(cc.V.Elem().Interface()); sz.panicked() {
		c.Violation("size-panic", "C16/size-panic/"+panicSig(sz)+"/"+sig, "EncodedSize(value) panicked: %v", sz.pv)
		return
	}
	check("EncodedSize(value)")
	// larger-than-needed buffer with canaries inside [n,len), [len,cap) and beyond
	extra := 1 + r.Intn(200)
	cb := mon.NewCanary(len(want)+extra, len(want)+extra+r.Intn(64), 0xE7)
	e1 := fEncode(cb.Buf, cc.V.Interface())
	if e1.panicked() || e1.err != nil {
		c.Violation("encode-failed", "C16/encode-failed/"+sig, "EncodeObject failed: err=%v panic=%v", e1.err, e1.pv)
		return
	}
	if off, ok := cb.Check(e1.n); !ok {
		c.Violation("buffer-tail", "C16/buffer-tail/"+sig, "EncodeObject returned n=%d but modified the byte at offset %d of the caller's buffer (len %d, cap %d)", e1.n, off, len(cb.Buf), cap(cb.Buf))
	}
	check("EncodeObject(ptr)")
	first := append([]byte(nil), cb.Buf[:e1.n]...)
	b2 := make([]byte, len(want)+extra)
	e2 := fEncode(b2, cc.V.Elem().Interface())
	if e2.panicked() || e2.err != nil {
		c.Violation("encode-failed", "C16/encode-byvalue-failed/"+sig, "EncodeObject(value) failed: err=%v panic=%v", e2.err, e2.pv)
		return
	}
	check("EncodeObject(value)")
	// other values of the same type going through the by-value scratch must neither
	// touch this value nor leave anything behind that changes a later encoding
	{
		vc := gen.DefaultValCfg()
		vc.Budget = 60
		other := gen.NewValue(r, s, vc)
		wantO := ref.Encode(s, other.Elem())
		fSize(other.Elem().Interface())
		bo := make([]byte, len(wantO)+16)
		if eo := fEncode(bo, other.Elem().Interface()); !eo.panicked() && eo.err == nil && !sameUpToMapOrder(bo[:eo.n], wantO) {
			c.Violation("repeatable", "C16/byvalue-other-value/"+sig, "by-value encoding of another value of the type differs from the reference: %s vs %s", hexClip(bo[:eo.n]), hexClip(wantO))
		}
		check("by-value calls on another value of the same type")
		fSize(other.Elem().Interface()) // a by-value size computation is the last by-value use ...
		zero := reflect.New(s.Go)
		wantZ := ref.Encode(s, zero.Elem())
		bz := make([]byte, len(wantZ)+len(wantO)+16)
		if ez := fEncode(bz, zero.Elem().Interface()); !ez.panicked() && ez.err == nil && !sameUpToMapOrder(bz[:ez.n], wantZ) {
			// ... before the zero value is passed by value
			c.Violation("repeatable", "C16/byvalue-zero-after-history/"+sig, "by-value encoding of the zero value after by-value use of another value gives %s, expected %s", hexClip(bz[:ez.n]), hexClip(wantZ))
		}
		e3 := fEncode(b2, cc.V.Interface())
		if e3.panicked() || e3.err != nil || !sameUpToMapOrder(first, b2[:e3.n]) {
			c.Violation("repeatable", "C16/not-repeatable-after-byvalue/"+sig, "encoding the unmodified value again after by-value calls on other values differs: err=%v panic=%v", e3.err, e3.pv)
		}
	}
	if !sameUpToMapOrder(first, b2[:e2.n]) {
		c.Violation("repeatable", "C16/not-repeatable/"+sig, "second encoding differs beyond map order: %s vs %s", hexClip(first), hexClip(b2[:e2.n]))
	}
	// encoding must not write to the value even temporarily: the scalar arrays, binaries and
	// strings reachable from it (outside maps) move into a write-protected mapping; a store
	// into them faults in this step, whatever the encoder would have restored afterwards
	{
		total := 0
		relocateScalars(cc.V.Elem(), func(n, align int) unsafe.Pointer {
			total = (total+align-1)&^(align-1) + n
			return nil
		})
		if total > 0 && total <= 16<<20 {
			vreg := mon.NewRegion(total + 64)
			defer vreg.Free()
			base := vreg.Left(total + 64)
			off := 0
			relocateScalars(cc.V.Elem(), func(n, align int) unsafe.Pointer {
				off = (off + align - 1) &^ (align - 1)
				p := unsafe.Pointer(&base[off])
				off += n
				return p
			})
			vreg.ReadOnly()
			c.Step("size and encode a value whose scalar arrays and strings are write-protected (%d bytes) type=%s", total, s.Describe())
			c.Count("protected_value_bytes", int64(total))
			fSize(cc.V.Interface())
			fSize(cc.V.Elem().Interface())
			bp := make([]byte, len(want)+extra)
			if ep := fEncode(bp, cc.V.Interface()); ep.panicked() || ep.err != nil || !sameUpToMapOrder(first, bp[:ep.n]) {
				c.Violation("repeatable", "C16/protected-value-differs/"+sig, "encoding the value from write-protected memory: err=%v panic=%v, bytes equal=%v", ep.err, ep.pv, sameUpToMapOrder(first, bp[:ep.n]))
			}
			if ep := fEncode(bp, cc.V.Elem().Interface()); ep.panicked() || ep.err != nil || !sameUpToMapOrder(first, bp[:ep.n]) {
				c.Violation("repeatable", "C16/protected-value-differs/"+sig, "encoding the value (by value) from write-protected memory: err=%v panic=%v", ep.err, ep.pv)
			}
		}
	}
	// decoding must not modify its input: read-only mapping, right-aligned
	in, reg := mon.GuardedCopy(first, true)
	c.Step("decode from read-only input %s type=%s", hexClip(first), s.Describe())
	dst := fresh(s)
	dr := fDecode(in, dst.Interface())
	if dr.panicked() {
		c.Violation("decode-panic", "C16/decode-panic/"+panicSig(dr)+"/"+sig, "DecodeObject panicked: %v", dr.pv)
	}
	if !bytes.Equal(in, first) {
		c.Violation("input-modified", "C16/input-modified/"+sig, "DecodeObject modified its input")
	}
	reg.Free()
	// the same for inputs a foreign or faulty writer may send: bool bytes other
	// than 0/1, corrupted bytes, truncations - a write into the read-only mapping
	// faults in the child and is attributed to this step
	pr := wire.Parse(first)
	var variants [][]byte
	if pr.Root != nil {
		var bools []int
		collectBools(pr.Root, &bools)
		if len(bools) > 0 {
			v := append([]byte(nil), first...)
			for _, off := range bools {
				v[off] = byte(2 + r.Intn(254))
			}
			variants = append(variants, v)
			c.Count("bool_bytes_forged", int64(len(bools)))
		}
	}
	for k := 0; k < 6 && len(first) > 1; k++ {
		v := append([]byte(nil), first...)
		v[r.Intn(len(v))] ^= byte(1 + r.Intn(255))
		if k%2 == 0 {
			v = v[:1+r.Intn(len(v)-1)]
		}
		variants = append(variants, v)
	}
	for _, v := range variants {
		in, reg := mon.GuardedCopy(v, true)
		c.Step("decode hostile variant from read-only input %s type=%s", hexClip(v), s.Describe())
		if dr := fDecode(in, fresh(s).Interface()); dr.panicked() {
			c.Violation("decode-panic", "C16/decode-panic/"+panicSig(dr), "DecodeObject panicked: %v", dr.pv)
		}
		if !bytes.Equal(in, v) {
			c.Violation("input-modified", "C16/input-modified/"+sig, "DecodeObject modified its input")
		}
		reg.Free()
	}
	_ = gen.IDClasses
	c.Sample(map[string]string{"type": s.Describe(), "bytes": hexClip(first), "spare": fmt.Sprint(extra)})
}

// relocateScalars moves the backing arrays of scalar slices (lists of bool/i8/i16/i32/i64/
// double/enum, binaries, holders) and the bytes of non-empty strings reachable from v -
// through pointers, by-value structs and slices, not through maps - into memory handed out
// by alloc. With an alloc that returns nil it only measures.
func relocateScalars(v reflect.Value, alloc func(n, align int) unsafe.Pointer) {
	type sliceHdr struct {
		Data     unsafe.Pointer
		Len, Cap int
	}
	type stringHdr struct {
		Data unsafe.Pointer
		Len  int
	}
	switch v.Kind() {
	case reflect.Ptr:
		if !v.IsNil() {
			relocateScalars(v.Elem(), alloc)
		}
	case reflect.Struct:
		for i := 0; i < v.NumField(); i++ {
			relocateScalars(v.Field(i), alloc)
		}
	case reflect.String:
		if n := v.Len(); n > 0 && v.CanAddr() {
			if p := alloc(n, 1); p != nil {
				h := (*stringHdr)(unsafe.Pointer(v.UnsafeAddr()))
				copy(unsafe.Slice((*byte)(p), n), unsafe.Slice((*byte)(h.Data), n))
				h.Data = p
			}
		}
	case reflect.Slice:
		if v.IsNil() || v.Len() == 0 || !v.CanAddr() {
			return
		}
		switch v.Type().Elem().Kind() {
		case reflect.Bool, reflect.Int8, reflect.Int16, reflect.Int32, reflect.Int64, reflect.Int, reflect.Float64, reflect.Uint8:
			es := int(v.Type().Elem().Size())
			n := v.Len() * es
			if p := alloc(n, es); p != nil {
				h := (*sliceHdr)(unsafe.Pointer(v.UnsafeAddr()))
				copy(unsafe.Slice((*byte)(p), n), unsafe.Slice((*byte)(h.Data), n))
				h.Data, h.Cap = p, h.Len
			}
		case reflect.Ptr, reflect.Struct, reflect.Slice, reflect.String:
			for i := 0; i < v.Len(); i++ {
				relocateScalars(v.Index(i), alloc)
			}
		}
	}
}

// collectBools gathers the offsets of every bool value byte of a parsed message.
func collectBools(n *wire.Node, out *[]int) {
	switch n.T {
	case wire.TBool:
		*out = append(*out, n.Start)
	case wire.TStruct:
		for _, f := range n.Fields {
			collectBools(f.V, out)
		}
	default:
		for _, e := range n.Elems {
			collectBools(e, out)
		}
	}
}

// spareCapacity re-slices lists, binaries and holders reachable from v so that
// some have capacity beyond their length, filled with a recognisable pattern
// (as a value that views a larger receive buffer has).
func spareCapacity(r *gen.Rand, s *schema.Struct, v reflect.Value, depth int) {
	grow := func(f reflect.Value) {
		if f.Kind() != reflect.Slice || f.IsNil() || !f.CanSet() || !r.Chance(1, 2) {
			return
		}
		extra := 1 + r.Intn(9)
		n := reflect.MakeSlice(f.Type(), f.Len()+extra, f.Len()+extra)
		reflect.Copy(n, f)
		if f.Type().Elem().Kind() == reflect.Uint8 {
			for i := f.Len(); i < n.Len(); i++ {
				n.Index(i).SetUint(0xEE)
			}
		}
		f.Set(n.Slice3(0, f.Len(), n.Len()))
	}
	for _, f := range s.Fields {
		fv := v.Field(f.Index)
		switch f.T.K {
		case schema.Binary, schema.List, schema.Set:
			if !f.T.Ptr {
				grow(fv)
			}
		case schema.StructK:
			if depth < 3 {
				if f.T.Ptr {
					if !fv.IsNil() {
						spareCapacity(r, f.T.S, fv.Elem(), depth+1)
					}
				} else {
					spareCapacity(r, f.T.S, fv, depth+1)
				}
			}
		}
		if (f.T.K == schema.List || f.T.K == schema.Set) && f.T.Elem.K == schema.StructK && f.T.Elem.Ptr && depth < 3 {
			for i := 0; i < fv.Len(); i++ {
				if !fv.Index(i).IsNil() {
					spareCapacity(r, f.T.Elem.S, fv.Index(i).Elem(), depth+1)
				}
			}
		}
	}
	if s.HasUnknown && r.Chance(2, 3) {
		h := ref.Holder(s, v)
		if len(h) > 0 {
			n := make([]byte, len(h)+1+r.Intn(8))
			copy(n, h)
			for i := len(h); i < len(n); i++ {
				n[i] = 0xEE
			}
			ref.SetHolder(s, v, n[:len(h)])
		}
	}
}
