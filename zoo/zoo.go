// Package zoo holds the static Go types the harness cannot build with
// reflect.StructOf: named enums, recursive and mutually recursive structs,
// structs with InitDefault methods, package-qualified annotations, thrift-only
// tags and embedded/unexported/untagged fields. Dynamic types nest these.
package zoo

import (
	"math"
	"reflect"
)

type E0 int64
type E1 int64
type E2 int64
type E3 int64

// Octet is a named uint8: []Octet is neither []byte nor a Thrift list.
type Octet uint8

// EInt is an enum declared on Go int (64-bit here): annotated with its own name it
// is a Thrift enum just like the int64-based ones.
type EInt int

var Enums = []reflect.Type{
	reflect.TypeOf(E0(0)), reflect.TypeOf(E1(0)), reflect.TypeOf(E2(0)), reflect.TypeOf(E3(0)), reflect.TypeOf(EInt(0)),
}

// ---- small leaf structs

type Leaf struct {
	A int32  `frugal:"1,default,i32"`
	B string `frugal:"2,default,string"`
}

type LeafReq struct {
	A int64   `frugal:"1,required,i64"`
	B *string `frugal:"2,optional,string"`
	C []int16 `frugal:"3,default,list<i16>"`
}

// Wide has many scalar widths to mix alignments.
type Wide struct {
	B0 bool     `frugal:"1,default,bool"`
	I1 int8     `frugal:"2,default,i8"`
	I2 int16    `frugal:"3,default,i16"`
	I4 int32    `frugal:"4,default,i32"`
	I8 int64    `frugal:"5,default,i64"`
	D  float64  `frugal:"6,default,double"`
	E  E1       `frugal:"7,default,E1"`
	S  string   `frugal:"8,default,string"`
	X  []byte   `frugal:"9,default,binary"`
	PB *bool    `frugal:"10,optional,bool"`
	PD *float64 `frugal:"11,optional,double"`
	P1 *int8    `frugal:"12,optional,i8"`
	P8 *int64   `frugal:"13,optional,i64"`
	PS *string  `frugal:"14,optional,string"`
	PE *E2      `frugal:"15,optional,E2"`
}

// ---- recursive types

type Node struct {
	Val   int32           `frugal:"1,default,i32"`
	Next  *Node           `frugal:"2,optional,Node"`
	Kids  []*Node         `frugal:"3,optional,list<Node>"`
	KSet  []*Node         `frugal:"4,optional,set<Node>"`
	ByVal map[int32]*Node `frugal:"5,optional,map<i32:Node>"`
	ByKey map[*Node]int8  `frugal:"6,optional,map<Node:i8>"`
	Vals  []Node          `frugal:"7,optional,list<Node>"`
	MVal  map[string]Node `frugal:"8,optional,map<string:Node>"`
	Name  string          `frugal:"9,optional,string"`
}

// NodeWithAnExceptionallyLongGoTypeNameForItsErrorContexts is Node under a long name:
// error texts that accumulate one "field N of struct S" context per level grow with it.
type NodeWithAnExceptionallyLongGoTypeNameForItsErrorContexts struct {
	Val   int32                                                               `frugal:"1,default,i32"`
	Next  *NodeWithAnExceptionallyLongGoTypeNameForItsErrorContexts           `frugal:"2,optional,NodeWithAnExceptionallyLongGoTypeNameForItsErrorContexts"`
	Kids  []*NodeWithAnExceptionallyLongGoTypeNameForItsErrorContexts         `frugal:"3,optional,list<NodeWithAnExceptionallyLongGoTypeNameForItsErrorContexts>"`
	KSet  []*NodeWithAnExceptionallyLongGoTypeNameForItsErrorContexts         `frugal:"4,optional,set<NodeWithAnExceptionallyLongGoTypeNameForItsErrorContexts>"`
	ByVal map[int32]*NodeWithAnExceptionallyLongGoTypeNameForItsErrorContexts `frugal:"5,optional,map<i32:NodeWithAnExceptionallyLongGoTypeNameForItsErrorContexts>"`
	ByKey map[*NodeWithAnExceptionallyLongGoTypeNameForItsErrorContexts]int8  `frugal:"6,optional,map<NodeWithAnExceptionallyLongGoTypeNameForItsErrorContexts:i8>"`
	Vals  []NodeWithAnExceptionallyLongGoTypeNameForItsErrorContexts          `frugal:"7,optional,list<NodeWithAnExceptionallyLongGoTypeNameForItsErrorContexts>"`
	MVal  map[string]NodeWithAnExceptionallyLongGoTypeNameForItsErrorContexts `frugal:"8,optional,map<string:NodeWithAnExceptionallyLongGoTypeNameForItsErrorContexts>"`
	Name  string                                                              `frugal:"9,optional,string"`
}

// NodeD is Node with a default initialiser: the decoder takes another path
// (InitDefault before decoding) for every struct it creates.
type NodeD struct {
	Val   int32            `frugal:"1,default,i32"`
	Next  *NodeD           `frugal:"2,optional,NodeD"`
	Kids  []*NodeD         `frugal:"3,optional,list<NodeD>"`
	KSet  []*NodeD         `frugal:"4,optional,set<NodeD>"`
	ByVal map[int32]*NodeD `frugal:"5,optional,map<i32:NodeD>"`
	ByKey map[*NodeD]int8  `frugal:"6,optional,map<NodeD:i8>"`
	Vals  []NodeD          `frugal:"7,optional,list<NodeD>"`
	MVal  map[string]NodeD `frugal:"8,optional,map<string:NodeD>"`
	Name  string           `frugal:"9,optional,string"`
}

func (p *NodeD) InitDefault() {
	p.Val = 5
	p.Name = "d"
}

// NodeU is Node with an unknown-fields holder and fewer known fields: the
// "older reader" of Node messages.
type NodeU struct {
	Val            int32    `frugal:"1,default,i32"`
	Next           *NodeU   `frugal:"2,optional,NodeU"`
	Kids           []*NodeU `frugal:"3,optional,list<NodeU>"`
	_unknownFields []byte
}

// NodeOld is Node without the container fields and without a holder.
type NodeOld struct {
	Val  int32    `frugal:"1,default,i32"`
	Next *NodeOld `frugal:"2,optional,NodeOld"`
}

type MutA struct {
	ID int64   `frugal:"1,default,i64"`
	B  *MutB   `frugal:"2,optional,MutB"`
	L  []*MutB `frugal:"3,default,list<MutB>"`
}

type MutB struct {
	Name string           `frugal:"1,default,string"`
	A    *MutA            `frugal:"2,optional,MutA"`
	M    map[string]*MutA `frugal:"3,optional,map<string:MutA>"`
	C    *MutC            `frugal:"4,default,MutC"`
}

type MutC struct {
	A  *MutA   `frugal:"1,optional,MutA"`
	Fl float64 `frugal:"2,required,double"`
}

// further cyclic families (first-use order and concurrent registration matter)
type Ring1 struct {
	N  *Ring2 `frugal:"1,optional,Ring2"`
	X  *Leaf  `frugal:"2,optional,Leaf"`
	ID int32  `frugal:"3,default,i32"`
}

type Ring2 struct {
	N *Ring3 `frugal:"1,optional,Ring3"`
	S string `frugal:"2,default,string"`
}

type Ring3 struct {
	N *Ring1   `frugal:"1,optional,Ring1"`
	L []*Ring2 `frugal:"2,optional,list<Ring2>"`
	W *Wide    `frugal:"3,optional,Wide"`
}

type Tree struct {
	Kids map[string]*Tree `frugal:"1,optional,map<string:Tree>"`
	Meta *TreeMeta        `frugal:"2,optional,TreeMeta"`
	V    int64            `frugal:"3,required,i64"`
}

type TreeMeta struct {
	Owner *Tree    `frugal:"1,optional,Tree"`
	Tags  []string `frugal:"2,default,set<string>"`
}

type PV struct {
	V VV `frugal:"1,default,VV"`
}

type VV struct {
	L []*PV `frugal:"1,optional,list<PV>"`
	D *Defs `frugal:"2,optional,Defs"`
	I int16 `frugal:"3,default,i16"`
}

// ---- defaults

type Defs struct {
	B       bool             `frugal:"1,optional,bool"`
	I8      int8             `frugal:"2,optional,i8"`
	I16     int16            `frugal:"3,optional,i16"`
	I32     int32            `frugal:"4,optional,i32"`
	I64     int64            `frugal:"5,optional,i64"`
	D       float64          `frugal:"6,optional,double"`
	DZ      float64          `frugal:"7,optional,double"`
	DN      float64          `frugal:"8,optional,double"`
	E       E0               `frugal:"9,optional,E0"`
	S       string           `frugal:"10,optional,string"`
	SZ      string           `frugal:"11,optional,string"`
	Bin     []byte           `frugal:"12,optional,binary"`
	BinZ    []byte           `frugal:"13,optional,binary"`
	RI32    int32            `frugal:"20,default,i32"`
	RS      string           `frugal:"21,default,string"`
	RD      float64          `frugal:"22,default,double"`
	QI64    int64            `frugal:"30,required,i64"`
	QS      string           `frugal:"31,required,string"`
	PI32    *int32           `frugal:"40,optional,i32"`
	PS      *string          `frugal:"41,optional,string"`
	PD      *float64         `frugal:"42,optional,double"`
	L       []int32          `frugal:"50,optional,list<i32>"`
	LD      []int32          `frugal:"51,default,list<i32>"`
	M       map[string]int64 `frugal:"52,optional,map<string:i64>"`
	Sub     *Leaf            `frugal:"60,optional,Leaf"`
	NoDf    int32            `frugal:"70,optional,i32"`    // not touched by InitDefault: default is zero
	NoDfBin []byte           `frugal:"71,optional,binary"` // not touched either: the default is the nil binary, which an empty one equals
	NoDfS   string           `frugal:"72,optional,string"`
}

func (p *Defs) InitDefault() {
	p.B = true
	p.I8 = 7
	p.I16 = -300
	p.I32 = 100000
	p.I64 = -1 << 40
	p.D = 1.5
	p.DZ = 0
	p.DN = math.NaN()
	p.E = 2
	p.S = "hello"
	p.SZ = ""
	p.Bin = []byte("bin")
	p.BinZ = []byte{}
	p.RI32 = 42
	p.RS = "dflt"
	p.RD = 2.25
	p.QI64 = -1
	p.QS = "req"
	p.LD = []int32{1, 2, 3}
}

// Defs2 has defaults and nests Defs in every position.
type Defs2 struct {
	Tag string           `frugal:"1,optional,string"`
	P   *Defs            `frugal:"2,optional,Defs"`
	V   Defs             `frugal:"3,default,Defs"`
	L   []*Defs          `frugal:"4,default,list<Defs>"`
	LV  []Defs           `frugal:"5,optional,list<Defs>"`
	M   map[string]*Defs `frugal:"6,optional,map<string:Defs>"`
	MV  map[int32]Defs   `frugal:"7,optional,map<i32:Defs>"`
	Cnt int32            `frugal:"8,optional,i32"`
}

func (p *Defs2) InitDefault() {
	p.Tag = "t2"
	p.Cnt = -5
}

// Defs3 declares defaults only on containers, non-optional fields and optional
// pointers: it has no optional by-value scalar at all.
type Defs3 struct {
	L  []int32          `frugal:"1,optional,list<i32>"`
	M  map[string]int16 `frugal:"2,optional,map<string:i16>"`
	R  int32            `frugal:"3,default,i32"`
	RS string           `frugal:"4,default,string"`
	Q  int64            `frugal:"5,required,i64"`
	P  *string          `frugal:"6,optional,string"`
	St []string         `frugal:"7,optional,set<string>"`
}

func (p *Defs3) InitDefault() {
	p.L = []int32{4, 5}
	p.M = map[string]int16{"k": 1}
	p.R = 9
	p.RS = "rs"
	p.Q = 77
	s := "ptr-default"
	p.P = &s
	p.St = []string{"a"}
}

// DefsNeg declares negative (and extreme) defaults on every optional by-value scalar
// kind: an enum is 8 bytes in memory and 4 on the wire, -1 is all ones in both.
type DefsNeg struct {
	E   E1      `frugal:"1,optional,E1"`
	EI  EInt    `frugal:"2,optional,EInt"`
	EM  E2      `frugal:"3,optional,E2"`
	I8  int8    `frugal:"4,optional,i8"`
	I16 int16   `frugal:"5,optional,i16"`
	I32 int32   `frugal:"6,optional,i32"`
	I64 int64   `frugal:"7,optional,i64"`
	D   float64 `frugal:"8,optional,double"`
	EX  E3      `frugal:"9,optional,E3"`
	S   string  `frugal:"10,optional,string"`
}

func (p *DefsNeg) InitDefault() {
	p.E = -1
	p.EI = -2
	p.EM = math.MinInt32
	p.I8 = -1
	p.I16 = -1
	p.I32 = -1
	p.I64 = -1
	p.D = -1
	p.EX = math.MaxInt32
	p.S = "neg"
}

// DefsNC declares non-empty defaults on nocopy string/binary fields.
type DefsNC struct {
	Name string  `frugal:"1,optional,string,nocopy"`
	Blob []byte  `frugal:"2,optional,binary,nocopy"`
	Note string  `frugal:"3,default,string,nocopy"`
	PS   *string `frugal:"4,optional,string,nocopy"`
	N    int32   `frugal:"5,optional,i32"`
}

func (p *DefsNC) InitDefault() {
	p.Name = "anonymous"
	p.Blob = []byte("blob")
	p.Note = "note"
	p.N = 7
}

// DefsNCHolder nests DefsNC so that the decoder creates (and default-initialises) it.
type DefsNCHolder struct {
	P *DefsNC            `frugal:"1,optional,DefsNC"`
	L []*DefsNC          `frugal:"2,optional,list<DefsNC>"`
	M map[string]*DefsNC `frugal:"3,optional,map<string:DefsNC>"`
	V DefsNC             `frugal:"4,default,DefsNC"`
}

// ReqNode is recursive through a required list and carries a required field
// after its recursive fields.
type ReqNode struct {
	Next *ReqNode   `frugal:"1,optional,ReqNode"`
	Kids []*ReqNode `frugal:"2,required,list<ReqNode>"`
	V    int32      `frugal:"3,required,i32"`
}

// NoDefs has the same optional fields as Defs but no initialiser (control).
type NoDefs struct {
	B   bool    `frugal:"1,optional,bool"`
	I32 int32   `frugal:"4,optional,i32"`
	D   float64 `frugal:"6,optional,double"`
	S   string  `frugal:"10,optional,string"`
	Bin []byte  `frugal:"12,optional,binary"`
	E   E0      `frugal:"9,optional,E0"`
}

// ---- unknown-fields holders

type WithUnknown struct {
	A              int32  `frugal:"1,default,i32"`
	B              string `frugal:"3,optional,string"`
	_unknownFields []byte
	C              []int64 `frugal:"5,optional,list<i64>"`
}

type UnknownNest struct {
	ID             int64                   `frugal:"1,default,i64"`
	One            *WithUnknown            `frugal:"2,optional,WithUnknown"`
	Val            WithUnknown             `frugal:"3,default,WithUnknown"`
	L              []*WithUnknown          `frugal:"4,optional,list<WithUnknown>"`
	M              map[string]*WithUnknown `frugal:"5,optional,map<string:WithUnknown>"`
	MV             map[int16]WithUnknown   `frugal:"6,optional,map<i16:WithUnknown>"`
	_unknownFields []byte
}

// ---- tag spellings

type Inner struct {
	X int16 `frugal:"1,default,i16"`
}

type Spelling struct {
	Q  *Inner            `frugal:"1,optional,zoo.Inner"`
	QL []*Inner          `frugal:"2,default,list<zoo.Inner>"`
	QM map[int32]*Inner  `frugal:"3,default,map<i32:zoo.Inner>"`
	By int8              `frugal:"4,default,byte"`
	Sp map[string][]int8 `frugal:" 5 , optional , map < string : list < byte > > "`
	En E3                `frugal:"6,default,zoo.E3"`
	Nt int32             `frugal:"7"`
	Nr string            `frugal:"8,required"`
}

type ThriftOnly struct {
	A int32   `thrift:"a,1,required" json:"a"`
	B *string `thrift:"b,2,optional" json:"b,omitempty"`
	C []int64 `thrift:"c,3,default,list<i64>"`
	D E2      `thrift:"d,4,default,E2"`
	F float64 `thrift:"f,5"`
	G *Leaf   `thrift:"g,6,optional,Leaf"`
}

// BothTags: the frugal tag must win over a conflicting thrift tag.
type BothTags struct {
	A int32  `thrift:"a,9,required" frugal:"1,optional,i32"`
	B string `frugal:"2,default,string" thrift:"b,1,optional"`
}

type Embedded struct {
	Hidden int32 `frugal:"90,default,i32"`
}

type EmbTagged struct {
	Z int64 `frugal:"1,default,i64"`
}

type Ignoring struct {
	Embedded                                 // embedded: ignored although its field is tagged
	EmbTagged `frugal:"9,default,EmbTagged"` // embedded with its own valid tag: still ignored
	A         int32                          `frugal:"1,default,i32"`
	Untagged  string                         // no tag: ignored
	private   int64                          `frugal:"2,default,i64"` // unexported: ignored
	B         string                         `frugal:"3,default,string"`
	JSONOnly  float64                        `json:"x"`
}

func (p *Ignoring) SetPrivate(v int64) { p.private = v }
func (p *Ignoring) Private() int64     { return p.private }

// ---- invalid definitions behind recursion (C13, C07)

type Bad struct {
	U uint32 `frugal:"1,default,i32"`
}

type BadTop struct {
	A *BadA `frugal:"1,optional,BadA"`
}

type BadA struct {
	B *BadB `frugal:"1,optional,BadB"`
	X *Bad  `frugal:"2,optional,Bad"`
}

type BadB struct {
	A *BadA `frugal:"1,optional,BadA"`
	N int32 `frugal:"2,default,i32"`
}

type BadTop2 struct {
	B *BadB `frugal:"1,optional,BadB"`
}

// second independent family so that two call orders can be tried in one process
type Bad2 struct {
	S []int32 `frugal:"1,default"` // slice without list/set annotation
}

type BadC struct {
	D *BadD `frugal:"1,optional,BadD"`
	X *Bad2 `frugal:"2,optional,Bad2"`
}

type BadD struct {
	C *BadC   `frugal:"1,optional,BadC"`
	L []*BadC `frugal:"2,optional,list<BadC>"`
}

type BadTop3 struct {
	D map[string]*BadD `frugal:"1,optional,map<string:BadD>"`
}

// third family: the cycle runs through a by-value struct field and a list
type CycP struct {
	V CycV `frugal:"1,default,CycV"`
}

type CycV struct {
	L []*CycP `frugal:"1,default,list<CycP>"`
	X *Bad    `frugal:"2,optional,Bad"`
}

// valid type that reuses CycV's neighbours
type CycR struct {
	P *CycP `frugal:"1,optional,CycP"`
}

// Valid lists the valid static struct types (pointers to zero values).
var Valid = []interface{}{
	&Leaf{}, &LeafReq{}, &Wide{}, &Node{}, &NodeU{}, &NodeOld{}, &MutA{}, &MutB{}, &MutC{},
	&Defs{}, &Defs2{}, &NoDefs{}, &WithUnknown{}, &UnknownNest{}, &Inner{}, &Spelling{},
	&ThriftOnly{}, &BothTags{}, &Ignoring{}, &Defs3{}, &ReqNode{}, &Ring1{}, &Tree{}, &PV{}, &DefsNC{}, &DefsNCHolder{}, &DefsNeg{},
}

// Nestable lists static struct types that dynamic types may nest freely (no
// required fields that would make "nil non-optional struct" undecodable is NOT
// guaranteed here; generators check).
var Nestable = []interface{}{
	&Leaf{}, &LeafReq{}, &Wide{}, &Node{}, &MutA{}, &Defs{}, &Defs2{}, &NoDefs{},
	&WithUnknown{}, &UnknownNest{}, &Spelling{}, &ThriftOnly{}, &Ignoring{}, &Defs3{}, &DefsNeg{},
}
