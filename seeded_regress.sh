#!/bin/bash
# seeded_regress.sh [ids...]: applies every seeded change to a scratch worktree of the repository (never /repo
# itself), runs the quick tier of the checks recorded in its meta.json against it, and reports whether at least
# one of them raises a violation. Meant for `vp run --with-repo -- ./seeded_regress.sh`.
cd "$(dirname "$(readlink -f "$0")")"
export GOFLAGS=-mod=mod GOPROXY=off GOSUMDB=off GOTOOLCHAIN=local
BASE=${VP_RUN_REPO:-/repo}
W=$(mktemp -d /var/tmp/seedreg.XXXXXX)/frugal
git -C $BASE worktree add -q --detach $W HEAD || exit 2
trap 'git -C $BASE worktree remove --force $W 2>/dev/null; rm -rf $(dirname $W)' EXIT
cp go.mod go.mod.orig
sed -i "s#=> .*#=> $W#" go.mod
trap 'mv go.mod.orig go.mod; git -C $BASE worktree remove --force $W 2>/dev/null; rm -rf $(dirname $W)' EXIT
ids="$@"; [ -z "$ids" ] && ids=$(ls seeded)
miss=0; n=0
for id in $ids; do
  d=seeded/$id
  git -C $W checkout -q -- . && git -C $W apply $PWD/$d/patch.diff || { echo "$id PATCH-DOES-NOT-APPLY"; miss=$((miss+1)); continue; }
  checks=$(python3 -c "import json;print(' '.join(json.load(open('$d/meta.json'))['caught_by']))")
  caught=""
  for c in $checks; do
    ./run.sh $c quick > out_seed_${id}_$c.txt 2>&1
    if grep -q "^VIOLATION property=$c" out_seed_${id}_$c.txt; then caught="$caught $c"; fi
  done
  n=$((n+1))
  if [ -n "$caught" ]; then echo "$id CAUGHT by$caught"; else echo "$id MISSED (ran: $checks)"; miss=$((miss+1)); fi
  git -C $W checkout -q -- .
done
git checkout -q -- evidence 2>/dev/null  # evidence written while /repo was mutated must not survive
echo "seeded changes: $n run, $miss missed"
exit $miss
