#!/bin/bash
# evalmut.sh <mutant-dir> <check-id> [more check ids...]
# 1. confirms in a scratch worktree that the patch compiles, the pinned suite passes and the demo fails with / passes without it
# 2. applies the patch to /repo, runs the given checks (quick), and always restores /repo
export GOFLAGS=-mod=mod GOPROXY=off GOSUMDB=off GOTOOLCHAIN=local
M=$1; shift
W=/tmp/mut/eval.$$
git -C /repo worktree add -q --detach $W HEAD || exit 2
cleanup() { git -C /repo checkout -q -- . ; git -C /repo worktree remove --force $W 2>/dev/null; }
trap cleanup EXIT
cd $W
demo=$(ls $M/demo_test.go $M/*_test.go 2>/dev/null | head -1)
demoname=zz_demo_test.go
run_demo() { (cd $W && cp "$demo" $W/$demoname && go test -vet=off -count=1 -run . . 2>&1 | tail -5; rm -f $W/$demoname) ; }
if [ -n "$demo" ] && [ -z "$SKIP_DEMO" ]; then
  echo "--- demo WITHOUT patch"; run_demo | tail -3
fi
git apply $M/patch.diff || { echo "PATCH DOES NOT APPLY"; exit 2; }
echo "--- suite WITH patch"
for m in . fuzz tests; do (cd $W/$m && go test -vet=off -count=1 ./... 2>&1 | grep -v "no test files" | grep -v "^ok" ); done
if [ -n "$demo" ] && [ -z "$SKIP_DEMO" ]; then
  echo "--- demo WITH patch"; run_demo | tail -4
fi
cd /verif
git -C /repo apply $M/patch.diff || { echo "PATCH DOES NOT APPLY TO /repo"; exit 2; }
for c in "$@"; do
  echo "--- check $c on mutated /repo"
  ./run.sh $c quick > /var/tmp/mut_$c.txt 2>&1; rc=$?
  echo "exit=$rc"; grep -c "^VIOLATION" /var/tmp/mut_$c.txt; grep "signature=" /var/tmp/mut_$c.txt | sed 's/ build.*//' | cut -c1-140 | sort | uniq -c | sort -rn | head -5; tail -1 /var/tmp/mut_$c.txt
done
git -C /repo checkout -q -- .
git -C /repo status --short | head -3
