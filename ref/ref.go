// Package ref is the reference model: a by-the-book Thrift Binary codec over
// reflect, driven by the harness' schema IR. It uses unsafe only to reach the
// unexported unknown-fields holder.
package ref

import (
	"encoding/binary"
	"fmt"
	"math"
	"reflect"
	"sync"
	"unsafe"

	"verif/schema"
	"verif/wire"
)

var defaultsCache sync.Map // reflect.Type -> reflect.Value (struct after InitDefault)

type initer interface{ InitDefault() }

// InitDefault runs the type's default initialiser on the addressable struct v.
func InitDefault(s *schema.Struct, v reflect.Value) {
	if s.HasInit {
		v.Addr().Interface().(initer).InitDefault()
	}
}

// Defaults returns a struct value holding the declared defaults (invalid Value
// when the type declares none).
func Defaults(s *schema.Struct) reflect.Value {
	if !s.HasInit {
		return reflect.Value{}
	}
	if v, ok := defaultsCache.Load(s.Go); ok {
		return v.(reflect.Value)
	}
	v := reflect.New(s.Go).Elem()
	InitDefault(s, v)
	defaultsCache.Store(s.Go, v)
	return v
}

// Holder returns the unknown-fields holder of addressable or readable struct v.
func Holder(s *schema.Struct, v reflect.Value) []byte {
	if !s.HasUnknown {
		return nil
	}
	return v.Field(s.UnknownIdx).Bytes()
}

// SetHolder stores b in the holder of addressable struct v.
func SetHolder(s *schema.Struct, v reflect.Value, b []byte) {
	f := v.Field(s.UnknownIdx)
	*(*[]byte)(unsafe.Pointer(f.UnsafeAddr())) = b
}

// Presence says whether the encoder must write field f of struct value v.
// lenient is true when the statement leaves the answer open (an optional
// non-pointer double equal to its default under == but not bitwise).
func Presence(s *schema.Struct, f *schema.Field, v reflect.Value) (present, lenient bool) {
	fv := v.Field(f.Index)
	if f.Req != schema.Optional {
		return true, false
	}
	t := f.T
	if t.Ptr {
		return !fv.IsNil(), false
	}
	switch t.K {
	case schema.List, schema.Set, schema.Map:
		return !fv.IsNil(), false
	case schema.StructK:
		return true, false
	}
	if t.K == schema.Binary && fv.IsNil() {
		return false, false
	}
	d := Defaults(s)
	if !d.IsValid() {
		return true, false
	}
	dv := d.Field(f.Index)
	switch t.K {
	case schema.Bool:
		return fv.Bool() != dv.Bool(), false
	case schema.I8, schema.I16, schema.I32, schema.I64, schema.Enum:
		return fv.Int() != dv.Int(), false
	case schema.Double:
		a, b := fv.Float(), dv.Float()
		if math.Float64bits(a) == math.Float64bits(b) {
			if a != a {
				return true, true // NaN default: NaN != NaN under ==, either answer is defensible
			}
			return false, false
		}
		if a == b {
			return false, true // -0.0 vs 0.0
		}
		return true, false
	case schema.String:
		return fv.String() != dv.String(), false
	case schema.Binary:
		return string(fv.Bytes()) != string(dv.Bytes()), false
	}
	return true, false
}

// EncodeOpts tune the reference encoder for workloads that need foreign-looking
// messages.
type EncodeOpts struct {
	// Order, when non-nil, is called with the number of fields to write in a
	// struct and returns a permutation (field order on the wire).
	Order func(n int) []int
	// Omit, when non-nil, drops the fields it returns true for (any
	// requiredness): used to synthesise messages from writers that omit fields.
	Omit func(s *schema.Struct, f *schema.Field) bool
	// Replace, when non-nil and returning non-nil bytes, writes those bytes (a
	// complete field: header and value) instead of the field - e.g. the same id
	// with another wire type, as a writer with a diverged schema would send.
	Replace func(s *schema.Struct, f *schema.Field) []byte
	// Dup, when non-nil and true, writes the field twice (a repeated occurrence).
	Dup func(s *schema.Struct, f *schema.Field) bool
	// After, when non-nil and returning bytes, writes them right after the field's (last)
	// occurrence - e.g. a further occurrence of the id under another wire type.
	After func(s *schema.Struct, f *schema.Field) []byte
}

func Encode(s *schema.Struct, v reflect.Value) []byte {
	return EncodeWith(s, v, nil)
}

func EncodeWith(s *schema.Struct, v reflect.Value, o *EncodeOpts) []byte {
	return appendStruct(nil, s, v, o)
}

func appendStruct(b []byte, s *schema.Struct, v reflect.Value, o *EncodeOpts) []byte {
	var idx []int
	for i, f := range s.Fields {
		p, _ := Presence(s, f, v)
		if p && o != nil && o.Omit != nil && o.Omit(s, f) {
			p = false
		}
		if p {
			idx = append(idx, i)
		}
	}
	if o != nil && o.Order != nil {
		perm := o.Order(len(idx))
		n := make([]int, len(idx))
		for i, j := range perm {
			n[i] = idx[j]
		}
		idx = n
	}
	for _, i := range idx {
		f := s.Fields[i]
		if o != nil && o.Replace != nil {
			if rb := o.Replace(s, f); rb != nil {
				b = append(b, rb...)
				continue
			}
		}
		b = append(b, f.T.WT(), byte(f.ID>>8), byte(f.ID))
		b = appendValue(b, f.T, v.Field(f.Index), o)
		if o != nil && o.Dup != nil && o.Dup(s, f) {
			b = append(b, f.T.WT(), byte(f.ID>>8), byte(f.ID))
			b = appendValue(b, f.T, v.Field(f.Index), o)
		}
		if o != nil && o.After != nil {
			b = append(b, o.After(s, f)...)
		}
	}
	if s.HasUnknown {
		b = append(b, Holder(s, v)...)
	}
	return append(b, 0)
}

func appendValue(b []byte, t *schema.Type, v reflect.Value, o *EncodeOpts) []byte {
	if t.Ptr {
		if v.IsNil() {
			if t.K != schema.StructK {
				panic("ref: nil pointer to non-struct reached the encoder")
			}
			return append(b, 0) // nil non-optional struct => empty struct
		}
		v = v.Elem()
	}
	switch t.K {
	case schema.Bool:
		if v.Bool() {
			return append(b, 1)
		}
		return append(b, 0)
	case schema.I8:
		return append(b, byte(v.Int()))
	case schema.I16:
		return binary.BigEndian.AppendUint16(b, uint16(v.Int()))
	case schema.I32, schema.Enum:
		return binary.BigEndian.AppendUint32(b, uint32(v.Int()))
	case schema.I64:
		return binary.BigEndian.AppendUint64(b, uint64(v.Int()))
	case schema.Double:
		return binary.BigEndian.AppendUint64(b, math.Float64bits(v.Float()))
	case schema.String:
		b = binary.BigEndian.AppendUint32(b, uint32(v.Len()))
		return append(b, v.String()...)
	case schema.Binary:
		b = binary.BigEndian.AppendUint32(b, uint32(v.Len()))
		return append(b, v.Bytes()...)
	case schema.StructK:
		return appendStruct(b, t.S, v, o)
	case schema.List, schema.Set:
		b = append(b, t.Elem.WT())
		b = binary.BigEndian.AppendUint32(b, uint32(v.Len()))
		for i := 0; i < v.Len(); i++ {
			b = appendValue(b, t.Elem, v.Index(i), o)
		}
		return b
	case schema.Map:
		b = append(b, t.Key.WT(), t.Elem.WT())
		b = binary.BigEndian.AppendUint32(b, uint32(v.Len()))
		it := v.MapRange()
		for it.Next() {
			b = appendValue(b, t.Key, it.Key(), o)
			b = appendValue(b, t.Elem, it.Value(), o)
		}
		return b
	}
	panic("ref: bad kind")
}

// ---------------------------------------------------------------- decoding

type ErrClass int

const (
	OK ErrClass = iota
	Truncated
	Negative
	TypeMismatch // element/key/value type code differs from the declared one
	BadType      // unknown wire type code
	RequiredMissing
	TooDeep
)

func (e ErrClass) String() string {
	return [...]string{"ok", "truncated", "negative", "typemismatch", "badtype", "required", "toodeep"}[e]
}

type DecodeError struct {
	Class ErrClass
	Off   int
	Field string // RequiredMissing: Go field name
}

func (e *DecodeError) Error() string {
	return fmt.Sprintf("ref: %v at %d %s", e.Class, e.Off, e.Field)
}

// Info records what a reference decode met.
type Info struct {
	MaxLevel     int  // deepest nesting level of a struct/container value (top = 1), known or skipped
	Lenient      bool // message contains an encoding on which readers may differ
	UnknownCount int  // unrecognised fields met (any level)
	DupField     bool // a field id occurred twice in one struct
	DupKey       bool // a map carried the same key twice
}

type decoder struct {
	b    []byte
	info Info
}

// MaxLevels bounds the reference decoder's own recursion.
const MaxLevels = 2500

// Decode reads a message into the addressable struct dst exactly as the
// property statements prescribe. It returns the number of bytes up to and
// including the top-level STOP.
func Decode(s *schema.Struct, b []byte, dst reflect.Value) (int, Info, *DecodeError) {
	d := &decoder{b: b}
	n, err := d.structInto(s, 0, dst, 1)
	return n, d.info, err
}

func (d *decoder) level(l int) *DecodeError {
	if l > d.info.MaxLevel {
		d.info.MaxLevel = l
	}
	if l > MaxLevels {
		return &DecodeError{Class: TooDeep}
	}
	return nil
}

func (d *decoder) need(off, n int) *DecodeError {
	if n < 0 || off+n > len(d.b) {
		return &DecodeError{Class: Truncated, Off: off}
	}
	return nil
}

func reasonClass(r string) ErrClass {
	switch r {
	case "truncated":
		return Truncated
	case "negative":
		return Negative
	case "badtype":
		return BadType
	case "toodeep":
		return TooDeep
	}
	panic("ref: unknown reason " + r)
}

func (d *decoder) structInto(s *schema.Struct, off int, dst reflect.Value, level int) (int, *DecodeError) {
	if err := d.level(level); err != nil {
		return 0, err
	}
	i := off
	var unknown []byte
	seen := map[uint16]bool{}
	got := map[uint16]bool{}
	for {
		if err := d.need(i, 1); err != nil {
			return 0, err
		}
		wt := d.b[i]
		if wt == 0 {
			i++
			break
		}
		if err := d.need(i, 3); err != nil {
			return 0, err
		}
		id := binary.BigEndian.Uint16(d.b[i+1:])
		if seen[id] {
			d.info.DupField = true
		}
		seen[id] = true
		f := s.FieldByID(id)
		if f == nil || f.T.WT() != wt {
			si, reason := wire.Skip(d.b, wt, i+3)
			if reason != "" {
				return 0, &DecodeError{Class: reasonClass(reason), Off: i}
			}
			if si.Lenient {
				d.info.Lenient = true
			}
			if si.Levels > 0 {
				if err := d.level(level + si.Levels); err != nil {
					return 0, err
				}
			}
			d.info.UnknownCount++
			if s.HasUnknown {
				unknown = append(unknown, d.b[i:si.End]...)
			}
			i = si.End
			continue
		}
		end, err := d.valueInto(f.T, i+3, dst.Field(f.Index), level+1, true)
		if err != nil {
			return 0, err
		}
		got[id] = true
		i = end
	}
	for _, f := range s.Fields {
		if f.Req == schema.Required && !got[f.ID] {
			return 0, &DecodeError{Class: RequiredMissing, Off: i, Field: f.Name}
		}
	}
	if s.HasUnknown && len(unknown) > 0 {
		SetHolder(s, dst, unknown)
	}
	return i, nil
}

// valueInto decodes a value of declared type t into dst (a settable Value of
// t.Go()). level is the nesting level the value has if it is a struct/container.
// inPlace says dst is existing memory (a struct field) rather than fresh memory.
func (d *decoder) valueInto(t *schema.Type, off int, dst reflect.Value, level int, inPlace bool) (int, *DecodeError) {
	if t.Ptr {
		nv := reflect.New(t.GoBase())
		bt := *t
		bt.Ptr = false
		end, err := d.valueInto(&bt, off, nv.Elem(), level, false)
		if err != nil {
			return 0, err
		}
		dst.Set(nv)
		return end, nil
	}
	if fs := t.FixedWire(); fs > 0 {
		if err := d.need(off, fs); err != nil {
			return 0, err
		}
		b := d.b[off:]
		switch t.K {
		case schema.Bool:
			if b[0] > 1 {
				d.info.Lenient = true
			}
			dst.SetBool(b[0] != 0)
		case schema.I8:
			dst.SetInt(int64(int8(b[0])))
		case schema.I16:
			dst.SetInt(int64(int16(binary.BigEndian.Uint16(b))))
		case schema.I32, schema.Enum:
			dst.SetInt(int64(int32(binary.BigEndian.Uint32(b))))
		case schema.I64:
			dst.SetInt(int64(binary.BigEndian.Uint64(b)))
		case schema.Double:
			dst.SetFloat(math.Float64frombits(binary.BigEndian.Uint64(b)))
		}
		return off + fs, nil
	}
	switch t.K {
	case schema.String, schema.Binary:
		if err := d.need(off, 4); err != nil {
			return 0, err
		}
		l := int(int32(binary.BigEndian.Uint32(d.b[off:])))
		if l < 0 {
			return 0, &DecodeError{Class: Negative, Off: off}
		}
		if err := d.need(off+4, l); err != nil {
			return 0, err
		}
		if t.K == schema.String {
			dst.SetString(string(d.b[off+4 : off+4+l]))
		} else {
			dst.SetBytes(append(make([]byte, 0, l), d.b[off+4:off+4+l]...))
		}
		return off + 4 + l, nil
	case schema.StructK:
		// a struct the decoder creates (or a by-value field it decodes into)
		// is first given its declared defaults
		InitDefault(t.S, dst)
		return d.structInto(t.S, off, dst, level)
	case schema.List, schema.Set:
		if err := d.level(level); err != nil {
			return 0, err
		}
		if err := d.need(off, 5); err != nil {
			return 0, err
		}
		et := d.b[off]
		l := int(int32(binary.BigEndian.Uint32(d.b[off+1:])))
		if l < 0 {
			return 0, &DecodeError{Class: Negative, Off: off}
		}
		if et != t.Elem.WT() {
			if l == 0 && wire.FixedSize(et) >= 0 {
				// empty container with a different (valid) element type: readers differ
				d.info.Lenient = true
			}
			return 0, &DecodeError{Class: TypeMismatch, Off: off}
		}
		min := minWire(t.Elem)
		if l > (len(d.b)-off-5)/min {
			return 0, &DecodeError{Class: Truncated, Off: off}
		}
		sl := reflect.MakeSlice(t.GoBase(), l, l)
		i := off + 5
		for j := 0; j < l; j++ {
			end, err := d.valueInto(t.Elem, i, sl.Index(j), level+1, false)
			if err != nil {
				return 0, err
			}
			i = end
		}
		dst.Set(sl)
		return i, nil
	case schema.Map:
		if err := d.level(level); err != nil {
			return 0, err
		}
		if err := d.need(off, 6); err != nil {
			return 0, err
		}
		kt, vt := d.b[off], d.b[off+1]
		l := int(int32(binary.BigEndian.Uint32(d.b[off+2:])))
		if l < 0 {
			return 0, &DecodeError{Class: Negative, Off: off}
		}
		if kt != t.Key.WT() || vt != t.Elem.WT() {
			if l == 0 && wire.FixedSize(kt) >= 0 && wire.FixedSize(vt) >= 0 {
				d.info.Lenient = true
			}
			return 0, &DecodeError{Class: TypeMismatch, Off: off}
		}
		if l > (len(d.b)-off-6)/(minWire(t.Key)+minWire(t.Elem)) {
			return 0, &DecodeError{Class: Truncated, Off: off}
		}
		m := reflect.MakeMapWithSize(t.GoBase(), l)
		i := off + 6
		for j := 0; j < l; j++ {
			k := reflect.New(t.Key.Go()).Elem()
			end, err := d.valueInto(t.Key, i, k, level+1, false)
			if err != nil {
				return 0, err
			}
			v := reflect.New(t.Elem.Go()).Elem()
			end, err = d.valueInto(t.Elem, end, v, level+1, false)
			if err != nil {
				return 0, err
			}
			i = end
			if m.MapIndex(k).IsValid() {
				d.info.DupKey = true
			}
			m.SetMapIndex(k, v)
		}
		dst.Set(m)
		return i, nil
	}
	panic("ref: bad kind")
}

func minWire(t *schema.Type) int {
	if fs := t.FixedWire(); fs > 0 {
		return fs
	}
	switch t.K {
	case schema.String, schema.Binary:
		return 4
	case schema.StructK:
		return 1
	case schema.List, schema.Set:
		return 5
	case schema.Map:
		return 6
	}
	panic("ref: bad kind")
}

// ValueBytes returns the reference wire encoding of a single value of type t
// (used to match Go map keys with the keys of a parsed message).
func ValueBytes(t *schema.Type, v reflect.Value) []byte {
	return appendValue(nil, t, v, nil)
}
