package ref

import (
	"bytes"
	"encoding/binary"
	"fmt"
	"math"
	"reflect"
	"sort"

	"verif/schema"
)

// CmpOpts selects the normalisations a comparison admits.
type CmpOpts struct {
	// RoundTrip renders the value as C01 says it comes back after encode+decode
	// into a default-initialised destination: a nil non-optional struct pointer
	// becomes the empty struct (zero value plus declared defaults) and an
	// optional field the encoder omits becomes the declared default. It is
	// applied to the ORIGINAL side only.
	RoundTrip bool
	// Hops is the number of encode+decode passes the original went through
	// (default 1): the nil-struct -> empty-struct normalisation applies once per
	// pass, one nesting level at a time.
	Hops int
	// LenientDouble: an optional non-pointer double that equals its declared
	// default under == is compared as that default (-0.0 vs 0.0).
	LenientDouble bool
	// IgnoreHolders leaves unknown-field holders out of the comparison.
	IgnoreHolders bool
}

// Canon serialises a value totally and canonically: nil and empty slices/maps
// coincide, map entries are sorted, doubles are bit patterns, pointer nil-ness is
// explicit, ignored Go fields of simple kinds and the holder are included.
func Canon(s *schema.Struct, v reflect.Value, o CmpOpts) []byte {
	return canonStruct(nil, s, v, o)
}

func canonStruct(b []byte, s *schema.Struct, v reflect.Value, o CmpOpts) []byte {
	for _, f := range s.Fields {
		fv := v.Field(f.Index)
		fv = normField(s, f, v, fv, o)
		b = canonValue(b, f.T, fv, f.Req == schema.Optional, o)
	}
	for _, e := range s.Extras {
		ev := v.Field(e.Index)
		switch ev.Kind() {
		case reflect.Int, reflect.Int8, reflect.Int16, reflect.Int32, reflect.Int64:
			b = binary.BigEndian.AppendUint64(b, uint64(ev.Int()))
		case reflect.String:
			b = binary.BigEndian.AppendUint32(b, uint32(ev.Len()))
			b = append(b, ev.String()...)
		case reflect.Float64:
			b = binary.BigEndian.AppendUint64(b, math.Float64bits(ev.Float()))
		}
	}
	if s.HasUnknown && !o.IgnoreHolders {
		h := Holder(s, v)
		b = binary.BigEndian.AppendUint32(b, uint32(len(h)))
		b = append(b, h...)
	}
	return b
}

// normField applies the field-level normalisations of o.
func normField(s *schema.Struct, f *schema.Field, v, fv reflect.Value, o CmpOpts) reflect.Value {
	if f.Req != schema.Optional {
		return fv
	}
	if o.LenientDouble && f.T.K == schema.Double && !f.T.Ptr {
		if d := Defaults(s); d.IsValid() && d.Field(f.Index).Float() == fv.Float() {
			return d.Field(f.Index)
		}
	}
	if o.RoundTrip {
		if present, _ := Presence(s, f, v); !present {
			if d := Defaults(s); d.IsValid() {
				return d.Field(f.Index)
			}
		}
	}
	return fv
}

func canonValue(b []byte, t *schema.Type, v reflect.Value, optional bool, o CmpOpts) []byte {
	if t.Ptr {
		if v.IsNil() {
			if t.K == schema.StructK && o.RoundTrip && !optional {
				e := reflect.New(t.S.Go).Elem()
				InitDefault(t.S, e)
				b = append(b, 1)
				return canonStruct(b, t.S, e, o.nextHop())
			}
			return append(b, 0)
		}
		b = append(b, 1)
		v = v.Elem()
	}
	switch t.K {
	case schema.Bool:
		if v.Bool() {
			return append(b, 1)
		}
		return append(b, 0)
	case schema.I8, schema.I16, schema.I32, schema.I64, schema.Enum:
		return binary.BigEndian.AppendUint64(b, uint64(v.Int()))
	case schema.Double:
		return binary.BigEndian.AppendUint64(b, math.Float64bits(v.Float()))
	case schema.String:
		b = binary.BigEndian.AppendUint32(b, uint32(v.Len()))
		return append(b, v.String()...)
	case schema.Binary:
		b = binary.BigEndian.AppendUint32(b, uint32(v.Len()))
		return append(b, v.Bytes()...)
	case schema.StructK:
		return canonStruct(b, t.S, v, o)
	case schema.List, schema.Set:
		b = binary.BigEndian.AppendUint32(b, uint32(v.Len()))
		for i := 0; i < v.Len(); i++ {
			b = canonValue(b, t.Elem, v.Index(i), false, o)
		}
		return b
	case schema.Map:
		b = binary.BigEndian.AppendUint32(b, uint32(v.Len()))
		type ent struct{ k, v []byte }
		ents := make([]ent, 0, v.Len())
		it := v.MapRange()
		for it.Next() {
			ents = append(ents, ent{canonValue(nil, t.Key, it.Key(), false, o), canonValue(nil, t.Elem, it.Value(), false, o)})
		}
		sort.Slice(ents, func(i, j int) bool {
			if c := bytes.Compare(ents[i].k, ents[j].k); c != 0 {
				return c < 0
			}
			return bytes.Compare(ents[i].v, ents[j].v) < 0
		})
		for _, e := range ents {
			b = binary.BigEndian.AppendUint32(b, uint32(len(e.k)))
			b = append(b, e.k...)
			b = append(b, e.v...)
		}
		return b
	}
	panic("ref: bad kind")
}

// Diff compares two struct values; it returns "" when equal under o, else a
// description with the path of the first difference.
func (o CmpOpts) decodedSide() CmpOpts { o.RoundTrip = false; return o }

// nextHop is the option set inside a struct that one pass materialised from nil.
func (o CmpOpts) nextHop() CmpOpts {
	if o.Hops > 1 {
		o.Hops--
		return o
	}
	return o.decodedSide()
}

// Diff compares an original/expected value a with an observed value b.
func Diff(s *schema.Struct, a, b reflect.Value, o CmpOpts) string {
	if bytes.Equal(Canon(s, a, o), Canon(s, b, o.decodedSide())) {
		return ""
	}
	return diffStruct(s, a, b, o, "")
}

func diffStruct(s *schema.Struct, a, b reflect.Value, o CmpOpts, path string) string {
	for _, f := range s.Fields {
		fa, fb := normField(s, f, a, a.Field(f.Index), o), normField(s, f, b, b.Field(f.Index), o.decodedSide())
		if d := diffValue(f.T, fa, fb, f.Req == schema.Optional, o, fmt.Sprintf("%s.%d(%s)", path, f.ID, f.Name)); d != "" {
			return d
		}
	}
	if s.HasUnknown && !bytes.Equal(Holder(s, a), Holder(s, b)) {
		return fmt.Sprintf("%s.holder: %x != %x", path, clipb(Holder(s, a)), clipb(Holder(s, b)))
	}
	return path + ": ignored Go field differs"
}

func diffValue(t *schema.Type, a, b reflect.Value, optional bool, o CmpOpts, path string) string {
	ca := canonValue(nil, t, a, optional, o)
	cb := canonValue(nil, t, b, optional, o.decodedSide())
	if bytes.Equal(ca, cb) {
		return ""
	}
	leaf := fmt.Sprintf("%s [%s]: %s != %s", path, t.Sig(), clip(ca), clip(cb))
	if t.Ptr {
		if a.IsNil() && !b.IsNil() && t.K == schema.StructK && o.RoundTrip && !optional {
			a = reflect.New(t.S.Go)
			InitDefault(t.S, a.Elem())
			o = o.nextHop()
		}
		if a.IsNil() || b.IsNil() {
			return fmt.Sprintf("%s [%s]: nil=%v vs nil=%v", path, t.Sig(), a.IsNil(), b.IsNil())
		}
		a, b = a.Elem(), b.Elem()
	}
	switch t.K {
	case schema.StructK:
		return diffStruct(t.S, a, b, o, path)
	case schema.List, schema.Set:
		if a.Len() != b.Len() {
			return fmt.Sprintf("%s [%s]: len %d vs %d", path, t.Sig(), a.Len(), b.Len())
		}
		for i := 0; i < a.Len(); i++ {
			if d := diffValue(t.Elem, a.Index(i), b.Index(i), false, o, fmt.Sprintf("%s[%d]", path, i)); d != "" {
				return d
			}
		}
	case schema.Map:
		if a.Len() != b.Len() {
			return fmt.Sprintf("%s [%s]: len %d vs %d", path, t.Sig(), a.Len(), b.Len())
		}
		if t.Key.Ptr || t.Key.K == schema.Double {
			return leaf
		}
		it := a.MapRange()
		for it.Next() {
			bv := b.MapIndex(it.Key())
			if !bv.IsValid() {
				return fmt.Sprintf("%s [%s]: key %v missing", path, t.Sig(), it.Key())
			}
			if d := diffValue(t.Elem, it.Value(), bv, false, o, fmt.Sprintf("%s[%v]", path, it.Key())); d != "" {
				return d
			}
		}
	}
	return leaf
}

func clipb(b []byte) []byte {
	if len(b) > 48 {
		return b[:48]
	}
	return b
}

func clip(b []byte) string {
	// show the region around the first difference is the caller's job; keep it short
	if len(b) > 40 {
		return fmt.Sprintf("%x…(%d bytes)", b[:40], len(b))
	}
	return fmt.Sprintf("%x", b)
}

// FieldDiffKind returns the type signature of the first differing top-level
// field (for violation signatures), or "".
func FieldDiffSig(s *schema.Struct, a, b reflect.Value, o CmpOpts) string {
	for _, f := range s.Fields {
		ca := canonValue(nil, f.T, normField(s, f, a, a.Field(f.Index), o), f.Req == schema.Optional, o)
		cb := canonValue(nil, f.T, normField(s, f, b, b.Field(f.Index), o.decodedSide()), f.Req == schema.Optional, o.decodedSide())
		if !bytes.Equal(ca, cb) {
			return f.T.SigShallow()
		}
	}
	return ""
}
