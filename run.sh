#!/bin/bash
# ./run.sh <ID> [quick|thorough]   run one property check (rebuilds the worker from /repo's working tree)
# ./run.sh replay <path>           re-execute a recorded witness
cd "$(dirname "$(readlink -f "$0")")" || exit 2
export GOFLAGS=-mod=mod GOPROXY=off GOSUMDB=off GOTOOLCHAIN=local CGO_ENABLED=1
mkdir -p .work evidence
go build -o .work/vcheck ./cmd/vcheck || { echo "cannot build the driver"; exit 2; }
if [ "$1" = "replay" ]; then
  exec .work/vcheck replay "$2"
fi
exec .work/vcheck run "$1" "${2:-${VERIF_TIER:-quick}}"
