package mon

import (
	"reflect"
	"strings"
	"unsafe"
)

// DeepClone returns a value structurally identical to v (nil-ness, lengths,
// capacities are not preserved beyond len) that shares no memory with it: every
// pointee, backing array, map and string is copied. Unexported fields are copied too.
// Values are expected to be trees (what a decoder produces).
func DeepClone(v reflect.Value) reflect.Value {
	out := reflect.New(v.Type()).Elem()
	cloneInto(out, v)
	return out
}

func settable(v reflect.Value) reflect.Value {
	if v.CanSet() {
		return v
	}
	return reflect.NewAt(v.Type(), unsafe.Pointer(v.UnsafeAddr())).Elem()
}

func readable(v reflect.Value) reflect.Value {
	if v.CanInterface() || !v.CanAddr() {
		return v
	}
	return reflect.NewAt(v.Type(), unsafe.Pointer(v.UnsafeAddr())).Elem()
}

func cloneInto(dst, src reflect.Value) {
	dst = settable(dst)
	src = readable(src)
	switch src.Kind() {
	case reflect.Ptr:
		if src.IsNil() {
			return
		}
		n := reflect.New(src.Type().Elem())
		cloneInto(n.Elem(), src.Elem())
		dst.Set(n)
	case reflect.Slice:
		if src.IsNil() {
			return
		}
		n := reflect.MakeSlice(src.Type(), src.Len(), src.Len())
		for i := 0; i < src.Len(); i++ {
			cloneInto(n.Index(i), src.Index(i))
		}
		dst.Set(n)
	case reflect.String:
		dst.SetString(strings.Clone(src.String()))
	case reflect.Map:
		if src.IsNil() {
			return
		}
		n := reflect.MakeMapWithSize(src.Type(), src.Len())
		it := src.MapRange()
		for it.Next() {
			// addressable temporaries, so that unexported fields inside keys/values can be read
			ks := reflect.New(src.Type().Key()).Elem()
			ks.Set(it.Key())
			es := reflect.New(src.Type().Elem()).Elem()
			es.Set(it.Value())
			k := reflect.New(src.Type().Key()).Elem()
			cloneInto(k, ks)
			e := reflect.New(src.Type().Elem()).Elem()
			cloneInto(e, es)
			n.SetMapIndex(k, e)
		}
		dst.Set(n)
	case reflect.Struct:
		for i := 0; i < src.NumField(); i++ {
			cloneInto(dst.Field(i), src.Field(i))
		}
	default:
		dst.Set(src)
	}
}
