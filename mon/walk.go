package mon

import (
	"fmt"
	"os"
	"reflect"
	"sort"
	"strings"
	"unsafe"
)

// Piece is one separately referenced block of memory of a decoded object: a
// pointee, a slice backing array up to its capacity, or non-empty string data.
type Piece struct {
	Ptr   unsafe.Pointer // keeps the memory reachable and satisfies checkptr
	Addr  uintptr
	Size  uintptr
	Align uintptr
	Kind  string // ptr, slice, string
	Path  string
	Owner int // index of the object the piece belongs to (set by the caller)
	Bad   string // non-empty: the reference itself is malformed (e.g. a slice whose len exceeds its cap)
}

func sliceExtent(v reflect.Value) int {
	if v.Len() > v.Cap() {
		return v.Len()
	}
	return v.Cap()
}

func (p Piece) End() uintptr { return p.Addr + p.Size }

// Walk appends every piece reachable from v (maps are traversed through their
// keys and values; the runtime's bucket memory itself is not a piece).
func Walk(v reflect.Value, path string, out *[]Piece) {
	switch v.Kind() {
	case reflect.Ptr:
		if v.IsNil() {
			return
		}
		et := v.Type().Elem()
		*out = append(*out, Piece{Ptr: v.UnsafePointer(), Addr: v.Pointer(), Size: et.Size(), Align: uintptr(et.Align()), Kind: "ptr", Path: path})
		Walk(v.Elem(), path+"*", out)
	case reflect.Slice:
		if v.IsNil() {
			return
		}
		et := v.Type().Elem()
		if n := sliceExtent(v); n > 0 {
			pc := Piece{Ptr: v.UnsafePointer(), Addr: v.Pointer(), Size: uintptr(n) * et.Size(), Align: uintptr(et.Align()), Kind: "slice", Path: path}
			if v.Cap() < v.Len() {
				pc.Bad = fmt.Sprintf("slice header with len %d > cap %d", v.Len(), v.Cap())
			}
			*out = append(*out, pc)
		}
		switch et.Kind() {
		case reflect.Ptr, reflect.Slice, reflect.String, reflect.Map, reflect.Struct:
			for i := 0; i < v.Len(); i++ {
				Walk(v.Index(i), fmt.Sprintf("%s[%d]", path, i), out)
			}
		}
	case reflect.String:
		if v.Len() > 0 {
			s := v.String()
			*out = append(*out, Piece{Ptr: unsafe.Pointer(unsafe.StringData(s)), Addr: uintptr(unsafe.Pointer(unsafe.StringData(s))), Size: uintptr(len(s)), Align: 1, Kind: "string", Path: path})
		}
	case reflect.Map:
		if v.IsNil() {
			return
		}
		// the map object itself (first word of its header: the entry count): two decoded maps
		// must never be one map, empty or not
		*out = append(*out, Piece{Ptr: v.UnsafePointer(), Addr: v.Pointer(), Size: 8, Align: 8, Kind: "map", Path: path})
		it := v.MapRange()
		i := 0
		for it.Next() {
			Walk(it.Key(), fmt.Sprintf("%s{k%d}", path, i), out)
			Walk(it.Value(), fmt.Sprintf("%s{v%d}", path, i), out)
			i++
		}
	case reflect.Struct:
		for i := 0; i < v.NumField(); i++ {
			f := v.Field(i)
			switch f.Kind() {
			case reflect.Ptr, reflect.Slice, reflect.String, reflect.Map, reflect.Struct:
				Walk(f, path+"."+v.Type().Field(i).Name, out)
			}
		}
	}
}

// static address ranges of the executable image (text, rodata, data, bss):
// string constants and other static data live there and are legitimately shared.
var staticRanges [][2]uintptr

func init() {
	exe, err := os.Executable()
	if err != nil {
		return
	}
	b, err := os.ReadFile("/proc/self/maps")
	if err != nil {
		return
	}
	for _, line := range strings.Split(string(b), "\n") {
		f := strings.Fields(line)
		if len(f) < 6 || f[5] != exe {
			continue
		}
		var lo, hi uintptr
		if _, err := fmt.Sscanf(f[0], "%x-%x", &lo, &hi); err == nil {
			staticRanges = append(staticRanges, [2]uintptr{lo, hi})
		}
	}
	// the bss follows the last file-backed mapping as an anonymous one; extend generously
	if n := len(staticRanges); n > 0 {
		staticRanges = append(staticRanges, [2]uintptr{staticRanges[n-1][1], staticRanges[n-1][1] + (64 << 20)})
	}
}

// IsStatic reports whether p lies in the executable's static image rather than
// in memory allocated at run time.
func IsStatic(p Piece) bool {
	for _, r := range staticRanges {
		if p.Addr >= r[0] && p.Addr < r[1] {
			return true
		}
	}
	return false
}

// DropStatic removes pieces that live in static data (e.g. string constants
// assigned by a default initialiser): the decoder did not create them.
func DropStatic(ps []Piece) []Piece {
	out := ps[:0:0]
	for _, p := range ps {
		if !IsStatic(p) {
			out = append(out, p)
		}
	}
	return out
}

// CheckAlign returns a description of the first misaligned or malformed piece, or "".
func CheckAlign(ps []Piece) string {
	for _, p := range ps {
		if p.Bad != "" {
			return fmt.Sprintf("%s %s at %#x: %s", p.Kind, p.Path, p.Addr, p.Bad)
		}
		if p.Align > 1 && p.Addr%p.Align != 0 {
			return fmt.Sprintf("%s %s at %#x (size %d) is not aligned to %d", p.Kind, p.Path, p.Addr, p.Size, p.Align)
		}
	}
	return ""
}

// CheckDisjoint returns a description of the first pair of overlapping pieces
// (zero-size pieces are ignored), or "". ps is sorted in place.
func CheckDisjoint(ps []Piece) string {
	sort.Slice(ps, func(i, j int) bool { return ps[i].Addr < ps[j].Addr })
	var last *Piece
	for i := range ps {
		p := &ps[i]
		if p.Size == 0 {
			continue
		}
		if last != nil && p.Addr < last.End() {
			return fmt.Sprintf("%s %s [%#x,%#x) of object %d overlaps %s %s [%#x,%#x) of object %d",
				p.Kind, p.Path, p.Addr, p.End(), p.Owner, last.Kind, last.Path, last.Addr, last.End(), last.Owner)
		}
		if last == nil || p.End() > last.End() {
			last = p
		}
	}
	return ""
}

// Overlapping returns the pieces that overlap [lo,hi). Zero-size pieces count
// when they point strictly inside (lo,hi) or at lo.
func Overlapping(ps []Piece, lo, hi uintptr) []Piece {
	var r []Piece
	for _, p := range ps {
		if p.Size == 0 {
			continue
		}
		if p.Addr < hi && p.End() > lo {
			r = append(r, p)
		}
	}
	return r
}

// Image copies the raw bytes of every piece.
func Image(ps []Piece) [][]byte {
	r := make([][]byte, len(ps))
	for i, p := range ps {
		if p.Size == 0 {
			continue
		}
		r[i] = append([]byte(nil), unsafe.Slice((*byte)(p.Ptr), p.Size)...)
	}
	return r
}

// CompareImage returns a description of the first piece whose raw bytes differ
// from the image, or "".
func CompareImage(ps []Piece, img [][]byte) string {
	for i, p := range ps {
		if p.Size == 0 {
			continue
		}
		cur := unsafe.Slice((*byte)(p.Ptr), p.Size)
		for j := range cur {
			if cur[j] != img[i][j] {
				return fmt.Sprintf("%s %s at %#x changed at byte %d of %d (%#x -> %#x)", p.Kind, p.Path, p.Addr, j, p.Size, img[i][j], cur[j])
			}
		}
	}
	return ""
}
