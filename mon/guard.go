// Package mon holds the reusable runtime monitors: guard-page buffers, canary
// buffers, the decoded-memory walker and deep snapshots.
package mon

import (
	"fmt"
	"syscall"
	"unsafe"
)

const pageSize = 4096

// Region is an mmap'ed area [PROT_NONE page][data pages][PROT_NONE page].
type Region struct {
	all  []byte
	data []byte
}

func NewRegion(n int) *Region {
	pages := (n + pageSize - 1) / pageSize
	if pages == 0 {
		pages = 1
	}
	all, err := syscall.Mmap(-1, 0, (pages+2)*pageSize, syscall.PROT_READ|syscall.PROT_WRITE, syscall.MAP_ANON|syscall.MAP_PRIVATE)
	if err != nil {
		panic(fmt.Sprintf("mon: mmap: %v", err))
	}
	if err := syscall.Mprotect(all[:pageSize], syscall.PROT_NONE); err != nil {
		panic(err)
	}
	if err := syscall.Mprotect(all[(pages+1)*pageSize:], syscall.PROT_NONE); err != nil {
		panic(err)
	}
	return &Region{all: all, data: all[pageSize : (pages+1)*pageSize]}
}

// Right returns an n-byte slice (cap n) whose last byte is immediately followed
// by the inaccessible page: reading or writing one byte past it faults.
func (r *Region) Right(n int) []byte {
	d := r.data[len(r.data)-n:]
	return d[:n:n]
}

// Left returns an n-byte slice whose first byte immediately follows the leading
// inaccessible page.
func (r *Region) Left(n int) []byte { return r.data[:n:n] }

// ReadOnly makes the data pages read-only (a write faults).
func (r *Region) ReadOnly() {
	if err := syscall.Mprotect(r.data, syscall.PROT_READ); err != nil {
		panic(err)
	}
}

func (r *Region) ReadWrite() {
	if err := syscall.Mprotect(r.data, syscall.PROT_READ|syscall.PROT_WRITE); err != nil {
		panic(err)
	}
}

func (r *Region) Free() {
	if r.all != nil {
		syscall.Munmap(r.all)
		r.all = nil
	}
}

// GuardedCopy places b right-aligned against a guard page; when readonly is set
// the pages are write-protected as well.
func GuardedCopy(b []byte, readonly bool) ([]byte, *Region) {
	r := NewRegion(len(b))
	g := r.Right(len(b))
	copy(g, b)
	if readonly {
		r.ReadOnly()
	}
	return g, r
}

// Canary is a buffer carved out of a larger array: canary bytes precede it, fill
// [len,cap) and lie beyond cap.
type Canary struct {
	whole []byte
	pre   int
	Buf   []byte // len = requested length, cap = requested capacity
	fill  byte
}

const canaryPad = 64

func NewCanary(length, capacity int, fill byte) *Canary {
	w := make([]byte, canaryPad+capacity+canaryPad)
	for i := range w {
		w[i] = fill
	}
	c := &Canary{whole: w, pre: canaryPad, fill: fill}
	c.Buf = w[canaryPad : canaryPad+length : canaryPad+capacity]
	return c
}

// Check returns the offset (relative to Buf[0]) of the first byte outside
// Buf[:n] that no longer holds the canary value, or ok.
func (c *Canary) Check(n int) (off int, ok bool) {
	for i, b := range c.whole {
		rel := i - c.pre
		if rel >= 0 && rel < n {
			continue
		}
		if b != c.fill {
			return rel, false
		}
	}
	return 0, true
}

// Addr returns the address of the first byte of b (0 for an empty slice header
// with nil data).
func Addr(b []byte) uintptr { return uintptr(unsafe.Pointer(unsafe.SliceData(b))) }
