// vcheck is the driver: it builds the worker from /repo's current working tree,
// runs the cases of a check in isolated child processes, attributes fatal faults
// to the case that was logged last, matches violations against the committed
// known-findings file, writes the evidence file and prints the verdict lines.
// It never links the code under test.
package main

import (
	"bufio"
	"crypto/sha1"
	"encoding/json"
	"fmt"
	"os"
	"os/exec"
	"path/filepath"
	"sort"
	"strconv"
	"strings"
	"sync"
	"syscall"
	"time"
)

// root is the directory the checks live in (run.sh changes into it): /verif, or a
// snapshot worktree of it when started through `vp run`.
var root = func() string {
	if d, err := os.Getwd(); err == nil {
		if _, err := os.Stat(filepath.Join(d, "cmd", "vcheck")); err == nil {
			return d
		}
	}
	return "/verif"
}()

type buildPlan struct {
	Build string `json:"build"`
	Cases int    `json:"cases"`
}

type planOut struct {
	Plan        []buildPlan `json:"plan"`
	Rule        string      `json:"rule"`
	Assumptions []string    `json:"assumptions"`
}

type line struct {
	T      string           `json:"t"`
	I      int              `json:"i"`
	D      string           `json:"d"`
	K      string           `json:"k"`
	Hash   string           `json:"h"`
	NT     bool             `json:"nt"`
	Tags   []string         `json:"tags"`
	Counts map[string]int64 `json:"n"`
	Sample interface{}      `json:"s"`
	Oracle string           `json:"o"`
	Sig    string           `json:"sig"`
	Msg    string           `json:"msg"`
}

type violation struct {
	Build  string `json:"build"`
	Idx    int    `json:"idx"`
	Oracle string `json:"oracle"`
	Sig    string `json:"sig"`
	Msg    string `json:"msg"`
}

type finding struct {
	Property  string `json:"property"`
	Signature string `json:"signature"`
	What      string `json:"what"`
	Status    string `json:"status"` // known | fixed
	Commit    string `json:"commit,omitempty"`
}

var buildFlags = map[string][]string{
	"plain":    {"-tags", "verif"},
	"checkptr": {"-tags", "verif", "-gcflags=all=-d=checkptr"},
	"race":     {"-tags", "verif", "-race"},
	"asan":     {"-tags", "verif", "-asan"},
}

// variants that reuse another binary with a different environment
var buildAlias = map[string]string{"clobber": "plain", "gcstress": "plain"}
var buildEnv = map[string][]string{
	"clobber":  {"GODEBUG=clobberfree=1"},
	"gcstress": {"GODEBUG=clobberfree=1", "GOGC=1"},
	"race":     {"GORACE=halt_on_error=0"},
	"asan":     {"ASAN_OPTIONS=detect_leaks=0:halt_on_error=1"},
}

func goEnv() []string {
	env := os.Environ()
	return append(env, "GOFLAGS=-mod=mod", "GOPROXY=off", "GOSUMDB=off", "GOTOOLCHAIN=local", "CGO_ENABLED=1")
}

func workDir() string {
	d := filepath.Join(root, ".work")
	os.MkdirAll(d, 0o755)
	return d
}

func binPath(build string) string {
	if a, ok := buildAlias[build]; ok {
		build = a
	}
	return filepath.Join(workDir(), "vworker-"+build)
}

var buildMu sync.Mutex
var built = map[string]bool{}

func buildWorker(build string) error {
	if a, ok := buildAlias[build]; ok {
		build = a
	}
	buildMu.Lock()
	defer buildMu.Unlock()
	if built[build] {
		return nil
	}
	args := append([]string{"build"}, buildFlags[build]...)
	args = append(args, "-o", binPath(build), "./cmd/vworker")
	cmd := exec.Command("go", args...)
	cmd.Dir = root
	cmd.Env = goEnv()
	out, err := cmd.CombinedOutput()
	if err != nil {
		return fmt.Errorf("building %s worker from /repo's working tree failed: %v\n%s", build, err, out)
	}
	built[build] = true
	return nil
}

func main() {
	if len(os.Args) < 3 {
		fmt.Fprintln(os.Stderr, "usage: vcheck run <ID> <quick|thorough> | vcheck replay <path>")
		os.Exit(2)
	}
	switch os.Args[1] {
	case "run":
		tier := "quick"
		if len(os.Args) > 3 {
			tier = os.Args[3]
		}
		if t := os.Getenv("VERIF_TIER"); t != "" && len(os.Args) <= 3 {
			tier = t
		}
		os.Exit(run(os.Args[2], tier))
	case "replay":
		os.Exit(replay(os.Args[2]))
	}
	os.Exit(2)
}

func seedFromEnv() uint64 {
	if s := os.Getenv("VERIF_SEED"); s != "" {
		if v, err := strconv.ParseUint(s, 10, 64); err == nil {
			return v
		}
		if v, err := strconv.ParseInt(s, 10, 64); err == nil {
			return uint64(v)
		}
	}
	return 1
}

type shardState struct {
	mu         sync.Mutex
	evals      int
	hashes     map[string]bool
	tags       map[string]int64
	counts     map[string]int64
	samples    []interface{}
	viols      []violation
	inconcl    []string
	perBuild   map[string]int
	fatals     int
	hookCounts map[string]int64
}

func (s *shardState) absorb(build string, l *line) {
	s.mu.Lock()
	defer s.mu.Unlock()
	switch l.T {
	case "E":
		s.evals++
		s.perBuild[build]++
		if l.NT {
			s.hashes[l.Hash] = true
		}
		for _, t := range l.Tags {
			s.tags[t]++
		}
		for k, v := range l.Counts {
			s.counts[k] += v
		}
		if l.Sample != nil && len(s.samples) < 4 {
			s.samples = append(s.samples, l.Sample)
		}
	case "V":
		s.viols = append(s.viols, violation{Build: build, Idx: l.I, Oracle: l.Oracle, Sig: l.Sig, Msg: l.Msg})
	case "I":
		if len(s.inconcl) < 50 {
			s.inconcl = append(s.inconcl, fmt.Sprintf("%s case %d: %s", build, l.I, l.Msg))
		}
	case "F":
		for k, v := range l.Counts {
			s.hookCounts[k] += v
		}
	}
}

func classifyFatal(stderr string) string {
	pats := []struct{ pat, class string }{
		{"AddressSanitizer", "asan"},
		{"checkptr", "checkptr"},
		{"out of memory", "out-of-memory"},
		{"stack overflow", "stack-overflow"},
		{"goroutine stack exceeds", "stack-overflow"},
		{"unexpected fault address", "fault-address"},
		{"SIGSEGV", "sigsegv"},
		{"SIGBUS", "sigbus"},
		{"concurrent map", "concurrent-map"},
		{"fatal error: all goroutines are asleep", "deadlock"},
		{"fatal error:", "fatal-error"},
		{"panic:", "panic"},
	}
	for _, p := range pats {
		if strings.Contains(stderr, p.pat) {
			return p.class
		}
	}
	return "died"
}

func tail(s string, n int) string {
	if len(s) > n {
		return "…" + s[len(s)-n:]
	}
	return s
}

func head(s string, n int) string {
	if len(s) > n {
		return s[:n] + "…"
	}
	return s
}

// runShard runs one shard to completion, restarting after fatal faults.
func runShard(st *shardState, id, tier, build string, seed uint64, shard, stride, n int, wall time.Duration) {
	from := 0
	dir := workDir()
	for attempt := 0; ; attempt++ {
		outf := filepath.Join(dir, fmt.Sprintf("%s-%s-%d-%d.jsonl", id, build, shard, attempt))
		errf := outf + ".stderr"
		os.Remove(outf)
		ef, _ := os.Create(errf)
		cmd := exec.Command(binPath(build), "-check", id, "-tier", tier, "-build", build, "-seed", fmt.Sprint(seed),
			"-shard", fmt.Sprint(shard), "-stride", fmt.Sprint(stride), "-from", fmt.Sprint(from), "-n", fmt.Sprint(n), "-max", "15000", "-out", outf)
		cmd.Env = append(os.Environ(), buildEnv[build]...)
		if build == "race" {
			cmd.Env = append(cmd.Env, "GORACE=halt_on_error=0 log_path="+outf+".race")
		}
		cmd.Stderr = ef
		cmd.Stdout = ef
		cmd.SysProcAttr = &syscall.SysProcAttr{Setpgid: true}
		start := time.Now()
		if err := cmd.Start(); err != nil {
			st.mu.Lock()
			st.inconcl = append(st.inconcl, "cannot start worker: "+err.Error())
			st.mu.Unlock()
			return
		}
		done := make(chan error, 1)
		go func() { done <- cmd.Wait() }()
		var werr error
		timedOut := false
		select {
		case werr = <-done:
		case <-time.After(wall):
			timedOut = true
			cmd.Process.Signal(syscall.SIGQUIT)
			select {
			case werr = <-done:
			case <-time.After(10 * time.Second):
				syscall.Kill(-cmd.Process.Pid, syscall.SIGKILL)
				werr = <-done
			}
		}
		ef.Close()
		_ = start
		// parse results
		lastB := line{I: -1}
		lastE := -1
		sawExitV := false
		nextFrom := -1
		if f, err := os.Open(outf); err == nil {
			sc := bufio.NewScanner(f)
			sc.Buffer(make([]byte, 1<<20), 64<<20)
			for sc.Scan() {
				var l line
				if json.Unmarshal(sc.Bytes(), &l) != nil {
					continue
				}
				switch l.T {
				case "B":
					lastB = l
				case "E":
					lastE = l.I
				case "N":
					nextFrom = l.I
				}
				if l.T == "V" && (l.Oracle == "cpu" || l.Oracle == "memory") {
					sawExitV = true
					if l.K != "" {
						l.Sig = l.Sig + "/" + l.K
					}
				}
				st.absorb(build, &l)
			}
			f.Close()
		}
		// race reports
		if build == "race" {
			collectRace(st, outf+".race", build, lastB.I)
		}
		stderrB, _ := os.ReadFile(errf)
		stderr := string(stderrB)
		if ee, ok := werr.(*exec.ExitError); ok && build == "race" && ee.ExitCode() == 66 && lastB.I == lastE {
			werr = nil // the race detector's exit code after a completed shard; its reports were collected above
		}
		if werr == nil && !timedOut {
			os.Remove(outf)
			os.Remove(errf)
			if nextFrom >= 0 {
				from = nextFrom // bounded process lifetime: continue the shard in a fresh worker
				continue
			}
			return
		}
		if timedOut {
			st.mu.Lock()
			st.inconcl = append(st.inconcl, fmt.Sprintf("%s shard %d: wall-clock watchdog (%v) fired at case %d; not a verdict", build, shard, wall, lastB.I))
			st.mu.Unlock()
			return
		}
		// the child died: attribute to the last begun, unfinished case
		if lastB.I < 0 || lastB.I == lastE {
			st.mu.Lock()
			st.inconcl = append(st.inconcl, fmt.Sprintf("%s shard %d: worker died outside any case: %v: %s", build, shard, werr, tail(stderr, 2000)))
			st.mu.Unlock()
			return
		}
		if !sawExitV {
			class := classifyFatal(stderr)
			sig := id + "/fatal/" + class
			if lastB.K != "" {
				sig += "/" + lastB.K
			}
			st.mu.Lock()
			st.evals++
			st.viols = append(st.viols, violation{Build: build, Idx: lastB.I, Oracle: "fatal", Sig: sig,
				Msg: fmt.Sprintf("worker process died (%v, class %s) while running: %s\n--- stderr (head) ---\n%s", werr, class, lastB.D, head(stderr, 3000))})
			st.mu.Unlock()
		}
		st.mu.Lock()
		st.fatals++
		tooMany := st.fatals > 400
		st.mu.Unlock()
		os.Remove(outf)
		os.Remove(errf)
		if tooMany {
			return
		}
		from = lastB.I + 1
	}
}

func collectRace(st *shardState, prefix, build string, idx int) {
	matches, _ := filepath.Glob(prefix + ".*")
	for _, m := range matches {
		b, _ := os.ReadFile(m)
		os.Remove(m)
		blocks := strings.Split(string(b), "==================")
		for _, blk := range blocks {
			if !strings.Contains(blk, "WARNING: DATA RACE") {
				continue
			}
			sig := raceSig(blk)
			st.mu.Lock()
			st.viols = append(st.viols, violation{Build: build, Idx: idx, Oracle: "race-detector", Sig: sig, Msg: head(blk, 5000)})
			st.mu.Unlock()
		}
	}
}

// raceSig de-duplicates a race report by the functions of its two stacks' top
// frames inside the repository, line numbers stripped.
func raceSig(blk string) string {
	var fns []string
	lines := strings.Split(blk, "\n")
	for i, l := range lines {
		l = strings.TrimSpace(l)
		if (strings.HasPrefix(l, "Write at") || strings.HasPrefix(l, "Read at") || strings.HasPrefix(l, "Previous write") || strings.HasPrefix(l, "Previous read")) && i+1 < len(lines) {
			fn := strings.TrimSpace(lines[i+1])
			if j := strings.Index(fn, "("); j > 0 {
				fn = fn[:j]
			}
			fns = append(fns, fn)
		}
	}
	sort.Strings(fns)
	return "race/" + strings.Join(fns, "+")
}

func loadFindings() []finding {
	var f struct {
		Findings []finding `json:"findings"`
	}
	b, err := os.ReadFile(filepath.Join(root, "known_findings.json"))
	if err != nil {
		return nil
	}
	json.Unmarshal(b, &f)
	return f.Findings
}

func run(id, tier string) int {
	t0 := time.Now()
	seed := seedFromEnv()
	evPath := filepath.Join(root, "evidence", id+".json")
	os.MkdirAll(filepath.Dir(evPath), 0o755)
	os.Remove(evPath)
	if err := buildWorker("plain"); err != nil {
		fmt.Println(err)
		fmt.Printf("VIOLATION property=%s replay=%s\n", id, "build-failure")
		return 1
	}
	out, err := exec.Command(binPath("plain"), "-check", id, "-tier", tier, "-plan").Output()
	if err != nil {
		fmt.Printf("cannot obtain plan for %s: %v\n", id, err)
		return 2
	}
	var po planOut
	if err := json.Unmarshal(out, &po); err != nil {
		fmt.Printf("bad plan: %v\n", err)
		return 2
	}
	st := &shardState{hashes: map[string]bool{}, tags: map[string]int64{}, counts: map[string]int64{}, perBuild: map[string]int{}, hookCounts: map[string]int64{}}
	wall := 20 * time.Minute
	if tier == "thorough" {
		wall = 4 * time.Hour
	}
	par := 16
	if p := os.Getenv("VERIF_PAR"); p != "" {
		if v, err := strconv.Atoi(p); err == nil && v > 0 {
			par = v
		}
	}
	// build everything up front (in parallel), then run builds one after another
	var bw sync.WaitGroup
	var berr error
	for _, bp := range po.Plan {
		bw.Add(1)
		go func(b string) {
			defer bw.Done()
			if err := buildWorker(b); err != nil {
				berr = err
			}
		}(bp.Build)
	}
	bw.Wait()
	if berr != nil {
		fmt.Println(berr)
		return 2
	}
	for _, bp := range po.Plan {
		stride := par
		if bp.Cases < stride {
			stride = bp.Cases
		}
		if stride < 1 {
			stride = 1
		}
		var wg sync.WaitGroup
		for sh := 0; sh < stride; sh++ {
			wg.Add(1)
			go func(sh int) {
				defer wg.Done()
				runShard(st, id, tier, bp.Build, seed, sh, stride, bp.Cases, wall)
			}(sh)
		}
		wg.Wait()
	}
	if id == "C05" && tier == "thorough" {
		fuzzStage(st, "plain", nil, 4*time.Minute)
		fuzzStage(st, "checkptr", []string{"-gcflags=all=-d=checkptr"}, 3*time.Minute)
	}
	return report(id, tier, seed, &po, st, t0, evPath)
}

// fuzzStage runs go's coverage-guided fuzzer over the C05 monitor
// (fuzzc05/fuzz_test.go) as an additional workload generator.
func fuzzStage(st *shardState, build string, flags []string, d time.Duration) {
	cache := filepath.Join(workDir(), "fuzzcache-"+build)
	os.MkdirAll(cache, 0o755)
	args := append([]string{"test", "-tags", "verif"}, flags...)
	args = append(args, "-run", "^$", "-fuzz=FuzzDecode", "-fuzztime="+d.String(), "-test.fuzzcachedir="+cache, ".")
	cmd := exec.Command("go", args...)
	cmd.Dir = filepath.Join(root, "fuzzc05")
	cmd.Env = goEnv()
	out, err := cmd.CombinedOutput()
	text := string(out)
	execs := int64(0)
	for _, l := range strings.Split(text, "\n") {
		if i := strings.Index(l, "execs: "); i >= 0 {
			var n int64
			fmt.Sscanf(l[i+7:], "%d", &n)
			if n > execs {
				execs = n
			}
		}
	}
	st.mu.Lock()
	defer st.mu.Unlock()
	st.counts["fuzz_execs_"+build] += execs
	st.evals += int(execs)
	if err == nil && !strings.Contains(text, "FAIL") {
		return
	}
	// the fuzzer reported a failure: it only counts when the saved input reproduces it in a
	// fresh process (a worker that dies or hangs on a loaded machine leaves no reproducer)
	msg := tail(text, 3000)
	var file string
	if i := strings.Index(text, "Failing input written to "); i >= 0 {
		file = strings.Fields(text[i+len("Failing input written to "):])[0]
	}
	reproduced := false
	if file != "" {
		if b, rerr := os.ReadFile(filepath.Join(root, "fuzzc05", file)); rerr == nil {
			msg += "\n--- failing input file ---\n" + string(b)
			rargs := append([]string{"test", "-tags", "verif"}, flags...)
			rargs = append(rargs, "-run", "FuzzDecode/"+filepath.Base(file), ".")
			rc := exec.Command("go", rargs...)
			rc.Dir = filepath.Join(root, "fuzzc05")
			rc.Env = goEnv()
			rout, rerr2 := rc.CombinedOutput()
			if rerr2 != nil {
				reproduced = true
				msg += "\n--- re-run of the saved input ---\n" + tail(string(rout), 3000)
			}
		}
		os.RemoveAll(filepath.Join(root, "fuzzc05", "testdata"))
	}
	if reproduced {
		st.viols = append(st.viols, violation{Build: "fuzz-" + build, Idx: -1, Oracle: "fuzz", Sig: "C05/fuzz/" + classifyFatal(msg), Msg: msg})
	} else {
		st.inconcl = append(st.inconcl, "fuzz stage ("+build+") stopped with a failure that the saved input does not reproduce in a fresh process (worker died or hung): "+tail(strings.ReplaceAll(text, "\n", " | "), 400))
	}
}

func report(id, tier string, seed uint64, po *planOut, st *shardState, t0 time.Time, evPath string) int {
	findings := loadFindings()
	known := map[string]finding{}
	for _, f := range findings {
		if f.Property == id && f.Status == "known" {
			known[f.Signature] = f
		}
	}
	// group violations by signature
	bySig := map[string][]violation{}
	var sigs []string
	for _, v := range st.viols {
		if _, ok := bySig[v.Sig]; !ok {
			sigs = append(sigs, v.Sig)
		}
		bySig[v.Sig] = append(bySig[v.Sig], v)
	}
	sort.Strings(sigs)
	rc := 0
	nViol := 0
	var knownSeen []string
	repDir := filepath.Join(root, "replays", id)
	for _, sig := range sigs {
		vs := bySig[sig]
		if f, ok := known[sig]; ok {
			fmt.Printf("KNOWN-FINDING: property=%s %s (signature %s, %d occurrences this run)\n", id, f.What, sig, len(vs))
			knownSeen = append(knownSeen, sig)
			continue
		}
		nViol += len(vs)
		rc = 1
		os.MkdirAll(repDir, 0o755)
		h := sha1.Sum([]byte(sig))
		p := filepath.Join(repDir, fmt.Sprintf("%x-%d.json", h[:6], vs[0].Idx))
		rep := map[string]interface{}{
			"property": id, "tier": tier, "seed": seed, "build": vs[0].Build, "case_index": vs[0].Idx,
			"oracle": vs[0].Oracle, "signature": sig, "occurrences": len(vs), "message": vs[0].Msg,
			"replay": fmt.Sprintf("./run.sh replay %s", p),
		}
		b, _ := json.MarshalIndent(rep, "", " ")
		os.WriteFile(p, b, 0o644)
		fmt.Printf("VIOLATION property=%s replay=%s\n", id, p)
		fmt.Printf("  signature=%s occurrences=%d build=%s case=%d\n  %s\n", sig, len(vs), vs[0].Build, vs[0].Idx, head(strings.ReplaceAll(vs[0].Msg, "\n", "\n  "), 1500))
	}
	for _, m := range st.inconcl {
		fmt.Printf("INCONCLUSIVE property=%s %s\n", id, head(m, 600))
	}
	// evidence
	tagSummary := map[string]int64{}
	cellTags := map[string]int{}
	for t, n := range st.tags {
		if i := strings.Index(t, "@"); i > 0 {
			pfx := t[:strings.Index(t, ":")]
			cellTags[pfx+"_cells_at_count"]++
			continue
		}
		if strings.Contains(t, "=") {
			pfx := t[:strings.Index(t, "=")]
			cellTags["distinct_"+pfx]++
			continue
		}
		tagSummary[t] = n
	}
	if len(tagSummary) > 400 {
		// keep the evidence file readable
		keys := make([]string, 0, len(tagSummary))
		for k := range tagSummary {
			keys = append(keys, k)
		}
		sort.Strings(keys)
		for _, k := range keys[400:] {
			delete(tagSummary, k)
		}
	}
	samples := st.samples
	if len(samples) == 0 {
		samples = []interface{}{"(no case completed)"}
	}
	// checks whose cases bundle many executions report them through "_evaluations"
	cases := st.evals
	if extra, ok := st.counts["_evaluations"]; ok {
		st.evals += int(extra)
		delete(st.counts, "_evaluations")
	}
	cov := map[string]interface{}{
		"cases":               cases,
		"evaluations":         st.evals,
		"distinct_nontrivial": len(st.hashes),
		"rule":                po.Rule,
		"samples":             samples,
		"per_build":           st.perBuild,
		"tags":                tagSummary,
		"cells":               cellTags,
		"counters":            st.counts,
		"hook_events":         st.hookCounts,
		"inconclusive":        st.inconcl,
		"known_findings_seen": knownSeen,
		"fatal_faults":        st.fatals,
	}
	ev := map[string]interface{}{
		"property_id": id, "tier": tier, "seed": seed, "level": "exploration",
		"coverage": cov, "assumptions": po.Assumptions, "wall_s": time.Since(t0).Seconds(), "violations": nViol,
	}
	if po.Assumptions == nil {
		ev["assumptions"] = []string{}
	}
	b, _ := json.MarshalIndent(ev, "", " ")
	os.WriteFile(evPath, b, 0o644)
	verdict := "held on everything explored"
	if rc != 0 {
		verdict = "VIOLATED"
	}
	fmt.Printf("%s %s seed=%d: %d evaluations, %d distinct non-trivial shapes, %d violations, %d known findings, %d inconclusive notes, %.1fs: %s\n",
		id, tier, seed, st.evals, len(st.hashes), nViol, len(knownSeen), len(st.inconcl), time.Since(t0).Seconds(), verdict)
	if st.evals == 0 {
		fmt.Printf("INCONCLUSIVE property=%s no case completed\n", id)
	}
	return rc
}

func replay(path string) int {
	b, err := os.ReadFile(path)
	if err != nil {
		fmt.Println(err)
		return 2
	}
	var rep struct {
		Property string `json:"property"`
		Tier     string `json:"tier"`
		Seed     uint64 `json:"seed"`
		Build    string `json:"build"`
		Idx      int    `json:"case_index"`
	}
	if err := json.Unmarshal(b, &rep); err != nil {
		fmt.Println(err)
		return 2
	}
	if err := buildWorker(rep.Build); err != nil {
		fmt.Println(err)
		return 2
	}
	cmd := exec.Command(binPath(rep.Build), "-check", rep.Property, "-tier", rep.Tier, "-build", rep.Build, "-seed", fmt.Sprint(rep.Seed), "-one", fmt.Sprint(rep.Idx))
	cmd.Env = append(os.Environ(), buildEnv[rep.Build]...)
	out, err := cmd.CombinedOutput()
	os.Stdout.Write(out)
	if err != nil || strings.Contains(string(out), `"t":"V"`) {
		fmt.Printf("VIOLATION property=%s replay=%s\n", rep.Property, path)
		return 1
	}
	fmt.Println("replay: no violation reproduced")
	return 0
}
