// vworker links the code under test and executes the cases of one check.
package main

import (
	"encoding/json"
	"flag"
	"fmt"
	"os"
	"runtime/debug"
	"syscall"

	"github.com/cloudwego/frugal"

	"verif/checks"
	"verif/harness"
)

func main() {
	check := flag.String("check", "", "property id")
	tier := flag.String("tier", "quick", "quick|thorough")
	build := flag.String("build", "plain", "build variant name")
	seed := flag.Uint64("seed", 1, "seed")
	shard := flag.Int("shard", 0, "shard index")
	stride := flag.Int("stride", 1, "number of shards")
	from := flag.Int("from", 0, "first case index to consider")
	n := flag.Int("n", 0, "number of cases")
	maxCases := flag.Int("max", 0, "stop after this many cases of the shard (the driver restarts the worker: bounded process lifetime)")
	out := flag.String("out", "", "result stream file")
	plan := flag.Bool("plan", false, "print the build plan and exit")
	one := flag.Int("one", -1, "run a single case (replay)")
	sub := flag.String("sub", "", "run a fresh-process scenario and print its result")
	flag.Parse()
	if *sub != "" {
		checks.RunSub(*sub)
		return
	}

	ck := checks.Registry[*check]
	if ck == nil {
		fmt.Fprintf(os.Stderr, "unknown check %q\n", *check)
		os.Exit(2)
	}
	if *plan {
		json.NewEncoder(os.Stdout).Encode(map[string]interface{}{"plan": ck.Plan(*tier), "rule": ck.Rule, "assumptions": ck.Assumptions})
		return
	}
	debug.SetMaxStack(256 << 20)
	switch *build {
	case "plain", "checkptr", "clobber", "gcstress":
		// backstop against runaway allocation (sanitizer builds need the address space)
		lim := syscall.Rlimit{Cur: 12 << 30, Max: 12 << 30}
		syscall.Setrlimit(syscall.RLIMIT_AS, &lim)
	}
	f := os.Stdout
	if *out != "" {
		var err error
		f, err = os.OpenFile(*out, os.O_CREATE|os.O_WRONLY|os.O_APPEND, 0o644)
		if err != nil {
			fmt.Fprintln(os.Stderr, err)
			os.Exit(2)
		}
	}
	c := harness.NewCtx(*check, *tier, *build, *seed, f)
	if ck.Setup != nil {
		ck.Setup(c)
	}
	if *one >= 0 {
		c.RunCase(*one, func() { ck.Run(c, *one) }, frugal.VerifDrain)
		return
	}
	done := 0
	next := -1
	for i := *from; i < *n; i++ {
		if i%*stride != *shard {
			continue
		}
		// bounded process lifetime: dynamic types (and the descriptors frugal keeps for
		// them, 512 KiB each for large field ids) are never freed, so the driver replaces
		// the worker after a number of cases or once it holds more than 1.2 GiB
		if (*maxCases > 0 && done >= *maxCases) || (done > 0 && done%64 == 0 && harness.MemTotal() > 1200<<20) {
			next = i
			break
		}
		i := i
		c.RunCase(i, func() { ck.Run(c, i) }, frugal.VerifDrain)
		done++
		if c.Aborted() {
			break
		}
	}
	c.Finish(frugal.VerifCounters())
	if next >= 0 {
		c.Next(next)
	}
}
