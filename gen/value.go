package gen

import (
	"encoding/binary"
	"reflect"

	"verif/ref"
	"verif/schema"
)

// ValCfg steers value generation.
type ValCfg struct {
	MaxDepth int  // struct nesting below which optional structs become nil / containers of structs empty
	Budget   int  // rough cap on the number of container elements generated overall
	Big      bool // allow the rare large strings / counts
	// ForceCount >= 0 fixes the length of every top-level (depth 0) container.
	ForceCount int
	// ForceStrLen >= 0 fixes the length of depth-0 strings and binaries.
	ForceStrLen int
	Holder      bool // fill unknown-field holders with well-formed unknown fields
	HolderAlways bool // ... in every struct that has a holder, not just in a third of them
}

func DefaultValCfg() *ValCfg {
	return &ValCfg{MaxDepth: 4, Budget: 400, ForceCount: -1, ForceStrLen: -1, Holder: true}
}

var smallCounts = []int{0, 0, 1, 1, 2, 3, 3, 8, 9}
var growthCounts = []int{14, 27, 28, 53, 55, 105, 107, 209}
var strLens = []int{0, 0, 1, 1, 2, 3, 5, 7, 8, 15, 16, 17, 31, 33}
var bigStrLens = []int{255, 256, 257, 2047, 2048, 2049, 5000}

func (c *ValCfg) count(r *Rand, depth int) int {
	if depth == 0 && c.ForceCount >= 0 {
		return c.ForceCount
	}
	if c.Budget <= 0 {
		return r.Intn(2)
	}
	var n int
	switch {
	case depth == 0 && c.Big && r.Chance(1, 6):
		n = growthCounts[r.Intn(len(growthCounts))]
	case depth <= 1:
		n = smallCounts[r.Intn(len(smallCounts))]
	default:
		n = r.Intn(4)
	}
	c.Budget -= n
	return n
}

func (c *ValCfg) strlen(r *Rand, depth int) int {
	if depth == 0 && c.ForceStrLen >= 0 {
		return c.ForceStrLen
	}
	if c.Big && depth <= 1 && r.Chance(1, 12) {
		if r.Chance(1, 10) {
			return 70000
		}
		return bigStrLens[r.Intn(len(bigStrLens))]
	}
	return strLens[r.Intn(len(strLens))]
}

// HasRequired reports whether decoding an empty struct message into s - or
// re-encoding the struct so decoded and decoding that again - fails: s has a
// required field itself, or reaches one through fields that are always written
// once s exists (by-value structs, non-optional struct pointers).
func HasRequired(s *schema.Struct) bool { return hasRequired(s, map[*schema.Struct]bool{}) }

func hasRequired(s *schema.Struct, seen map[*schema.Struct]bool) bool {
	if seen[s] {
		return false
	}
	seen[s] = true
	for _, f := range s.Fields {
		if f.Req == schema.Required {
			return true
		}
		if f.T.K == schema.StructK && (!f.T.Ptr || f.Req != schema.Optional) && hasRequired(f.T.S, seen) {
			return true
		}
	}
	return false
}

// NewValue returns a pointer to a freshly generated value of struct schema s.
func NewValue(r *Rand, s *schema.Struct, c *ValCfg) reflect.Value {
	p := reflect.New(s.Go)
	Fill(r, s, p.Elem(), c, 0)
	return p
}

// Fill fills the addressable struct v.
func Fill(r *Rand, s *schema.Struct, v reflect.Value, c *ValCfg, depth int) {
	for _, f := range s.Fields {
		fv := v.Field(f.Index)
		fv.Set(Value(r, f.T, c, f.Req == schema.Optional, depth))
	}
	if s.HasUnknown && c.Holder && (c.HolderAlways || r.Chance(1, 3)) {
		h := UnknownFields(r, s, 1+r.Intn(3))
		if c.HolderAlways && r.Bool() {
			// a payload that does not fit next to the struct in the decoder's current block
			h = append(h, BigUnknownField(r, s, []int{200, 300, 1500, 2500}[r.Intn(4)])...)
		}
		ref.SetHolder(s, v, h)
	}
}

// Value generates a value for type t. optional tells whether a nil pointer /
// nil container carries meaning (omitted) and is therefore allowed for scalars.
func Value(r *Rand, t *schema.Type, c *ValCfg, optional bool, depth int) reflect.Value {
	gt := t.Go()
	if t.Ptr {
		if t.K == schema.StructK {
			atLimit := depth >= c.MaxDepth || c.Budget <= 0
			if optional && (atLimit || r.Chance(1, 4)) {
				return reflect.Zero(gt)
			}
			if !optional && !HasRequired(t.S) && (atLimit || r.Chance(1, 8)) {
				return reflect.Zero(gt) // nil non-optional struct: written as empty struct
			}
			p := reflect.New(t.S.Go)
			Fill(r, t.S, p.Elem(), c, depth+1)
			return p
		}
		if r.Chance(1, 3) {
			return reflect.Zero(gt)
		}
		bt := *t
		bt.Ptr = false
		p := reflect.New(bt.Go())
		p.Elem().Set(Value(r, &bt, c, false, depth))
		return p
	}
	v := reflect.New(gt).Elem()
	switch t.K {
	case schema.Bool:
		v.SetBool(r.Bool())
	case schema.I8:
		v.SetInt(int64(int8(r.Int64())))
	case schema.I16:
		v.SetInt(int64(int16(r.Int64())))
	case schema.I32, schema.Enum:
		v.SetInt(int64(int32(r.Int64())))
	case schema.I64:
		v.SetInt(r.Int64())
	case schema.Double:
		v.SetFloat(r.Float64())
	case schema.String:
		v.SetString(string(r.Bytes(c.strlen(r, depth))))
	case schema.Binary:
		n := c.strlen(r, depth)
		if n == 0 && r.Bool() {
			break // nil binary
		}
		v.SetBytes(r.Bytes(n))
	case schema.StructK:
		Fill(r, t.S, v, c, depth+1)
	case schema.List, schema.Set:
		n := c.count(r, depth)
		if t.Elem.K == schema.StructK && depth >= c.MaxDepth {
			n = 0
		}
		if n == 0 && r.Bool() {
			break // nil
		}
		sl := reflect.MakeSlice(gt, n, n+r.Intn(3))
		for i := 0; i < n; i++ {
			sl.Index(i).Set(Value(r, t.Elem, c, false, depth+1))
		}
		v.Set(sl)
	case schema.Map:
		n := c.count(r, depth)
		if (t.Elem.K == schema.StructK || t.Key.K == schema.StructK) && depth >= c.MaxDepth {
			n = 0
		}
		if n == 0 && r.Bool() {
			break
		}
		// build by inserting one at a time into a small map so that the runtime
		// map grows through its thresholds the way a real program's map does
		m := reflect.MakeMap(gt)
		if t.Key.K == schema.Bool && n > 2 {
			n = 2
		}
		if t.Key.K == schema.I8 && n > 200 {
			n = 200
		}
		if t.Key.K == schema.StructK && t.Key.S.Go.Size() == 0 && n > 1 {
			// all pointers to a zero-size struct are equal in Go: such a map
			// cannot hold two distinct keys after decoding (not generated)
			n = 1
		}
		for tries := 0; m.Len() < n && tries < 4*n+16; tries++ {
			k := Value(r, t.Key, c, false, depth+1)
			if t.Key.K == schema.Double && k.Float() != k.Float() && m.Len() > 0 && !r.Chance(1, 4) {
				continue // keep NaN keys rare
			}
			if t.Key.IsScalar() && t.Key.K != schema.Bool && r.Chance(2, 3) {
				// spread keys so that large maps actually reach n entries
				switch t.Key.K {
				case schema.Double:
					k.SetFloat(float64(int64(r.Uint64()>>20)) / 8)
				case schema.I8:
					k.SetInt(int64(int8(r.Uint64())))
				case schema.I16:
					k.SetInt(int64(int16(r.Uint64())))
				case schema.I32, schema.Enum:
					k.SetInt(int64(int32(r.Uint64())))
				default:
					k.SetInt(int64(r.Uint64()))
				}
			}
			if t.Key.K == schema.String && m.MapIndex(k).IsValid() {
				k.SetString(k.String() + string(r.Bytes(3)))
			}
			m.SetMapIndex(k, Value(r, t.Elem, c, false, depth+1))
		}
		v.Set(m)
	}
	return v
}

// UnknownFields renders n well-formed fields whose ids s does not declare.
func UnknownFields(r *Rand, s *schema.Struct, n int) []byte {
	var b []byte
	for i := 0; i < n; i++ {
		id := uint16(r.Intn(65536))
		for s.FieldByID(id) != nil {
			id++
		}
		b = AppendRandomField(r, b, id, 2)
	}
	return b
}

// BigUnknownField renders one well-formed string field of n bytes under an id s does not declare.
func BigUnknownField(r *Rand, s *schema.Struct, n int) []byte {
	id := uint16(20000 + r.Intn(20000))
	for s.FieldByID(id) != nil {
		id++
	}
	b := []byte{11, byte(id >> 8), byte(id), byte(n >> 24), byte(n >> 16), byte(n >> 8), byte(n)}
	return append(b, r.Bytes(n)...)
}

var valueWireTypes = []byte{2, 3, 4, 6, 8, 10, 11, 12, 13, 14, 15}

// AppendRandomField appends a well-formed field (header + value) of a random
// wire type with the given id.
func AppendRandomField(r *Rand, b []byte, id uint16, depth int) []byte {
	wt := valueWireTypes[r.Intn(len(valueWireTypes))]
	if depth <= 0 && wt >= 12 {
		wt = 8
	}
	b = append(b, wt, byte(id>>8), byte(id))
	return AppendRandomValue(r, b, wt, depth)
}

// AppendRandomValue appends a well-formed value of wire type wt.
func AppendRandomValue(r *Rand, b []byte, wt byte, depth int) []byte {
	switch wt {
	case 2:
		return append(b, byte(r.Intn(2)))
	case 3:
		return append(b, byte(r.Uint64()))
	case 6:
		return binary.BigEndian.AppendUint16(b, uint16(r.Uint64()))
	case 8:
		return binary.BigEndian.AppendUint32(b, uint32(r.Uint64()))
	case 4, 10:
		return binary.BigEndian.AppendUint64(b, r.Uint64())
	case 11:
		n := strLens[r.Intn(len(strLens))]
		b = binary.BigEndian.AppendUint32(b, uint32(n))
		return append(b, r.Bytes(n)...)
	case 12:
		for i, n := 0, r.Intn(4); i < n; i++ {
			b = AppendRandomField(r, b, uint16(r.Intn(300)), depth-1)
		}
		return append(b, 0)
	case 14, 15:
		et := valueWireTypes[r.Intn(len(valueWireTypes))]
		if depth <= 0 && et >= 12 {
			et = 6
		}
		n := r.Intn(4)
		b = append(b, et)
		b = binary.BigEndian.AppendUint32(b, uint32(n))
		for i := 0; i < n; i++ {
			b = AppendRandomValue(r, b, et, depth-1)
		}
		return b
	case 13:
		kt := valueWireTypes[r.Intn(8)]
		vt := valueWireTypes[r.Intn(len(valueWireTypes))]
		if depth <= 0 && vt >= 12 {
			vt = 11
		}
		n := r.Intn(3)
		b = append(b, kt, vt)
		b = binary.BigEndian.AppendUint32(b, uint32(n))
		for i := 0; i < n; i++ {
			b = AppendRandomValue(r, b, kt, depth-1)
			b = AppendRandomValue(r, b, vt, depth-1)
		}
		return b
	}
	panic("gen: bad wire type")
}
