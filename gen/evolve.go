package gen

import "verif/schema"

// EvolveCfg steers the derivation of a reader type from a writer schema.
type EvolveCfg struct {
	OnlyRemove bool // reader is an older version: it only lacks fields
	Holder     int  // 0 random, 1 every struct declares the holder, 2 none does
	NoAdd      bool
}

func isDynamic(s *schema.Struct) bool { return s.Go.Name() == "" }

// Evolve derives a fresh reader struct type from writer schema w by removing,
// adding, retyping (different wire type) and renumbering fields, recursively
// through dynamic nested structs. Element types of containers are never
// retyped (that is malformed input for the reader, C05's business).
func Evolve(r *Rand, w *schema.Struct, c *EvolveCfg, depth int) *schema.Struct {
	t := &schema.Struct{UnknownIdx: -1}
	used := map[uint16]bool{}
	for _, f := range w.Fields {
		used[f.ID] = true
	}
	freeID := func() uint16 {
		for {
			id := uint16(1 + r.Intn(300))
			if r.Chance(1, 10) {
				id = uint16(r.Intn(65536))
			}
			if !used[id] {
				used[id] = true
				return id
			}
		}
	}
	for _, f := range w.Fields {
		roll := r.Intn(100)
		if c.OnlyRemove {
			if roll < 35 {
				continue
			}
			roll = 0
		}
		switch {
		case roll < 55: // keep
			t.Fields = append(t.Fields, &schema.Field{ID: f.ID, Req: f.Req, T: evolveType(r, f.T, c, depth), NoCopy: f.NoCopy})
		case roll < 70: // drop
		case roll < 85: // retype with a different wire type
			nt := retype(r, f.T)
			req := f.Req
			if req == schema.Required {
				req = schema.Default
			}
			if nt.Ptr && nt.K != schema.StructK {
				req = schema.Optional
			}
			t.Fields = append(t.Fields, &schema.Field{ID: f.ID, Req: req, T: nt})
		case roll < 95: // renumber
			req := f.Req
			if req == schema.Required {
				req = schema.Default
			}
			t.Fields = append(t.Fields, &schema.Field{ID: freeID(), Req: req, T: evolveType(r, f.T, c, depth)})
		default: // same wire type, other Go kind
			nt := f.T
			switch {
			case f.T.K == schema.String && !f.T.Ptr:
				nt = schema.Scalar(schema.Binary)
			case f.T.K == schema.Binary:
				nt = schema.Scalar(schema.String)
			case f.T.K == schema.I32 && !f.T.Ptr:
				nt = enumType(r)
			case f.T.K == schema.Enum && !f.T.Ptr:
				nt = schema.Scalar(schema.I32)
			}
			t.Fields = append(t.Fields, &schema.Field{ID: f.ID, Req: f.Req, T: nt})
		}
	}
	if !c.OnlyRemove && !c.NoAdd {
		for i, n := 0, r.Intn(3); i < n; i++ {
			req := schema.Req(r.Intn(2) * 2) // default or optional
			tc := &TypeCfg{MaxDepth: 1, MaxFields: 2}
			t.Fields = append(t.Fields, &schema.Field{ID: freeID(), Req: req, T: RandomType(r, tc, 1, req)})
		}
	}
	switch c.Holder {
	case 0:
		t.HasUnknown = r.Chance(1, 2)
	case 1:
		t.HasUnknown = true
	}
	t.SortFields()
	order := r.Perm(len(t.Fields))
	if t.HasUnknown {
		order = append(order, schema.UnknownMarker)
		j := r.Intn(len(order))
		order[len(order)-1], order[j] = order[j], order[len(order)-1]
	}
	t.GoOrder = order
	t.Build()
	return t
}

func evolveType(r *Rand, t *schema.Type, c *EvolveCfg, depth int) *schema.Type {
	switch t.K {
	case schema.StructK:
		if isDynamic(t.S) && depth < 3 {
			return schema.StructOf(Evolve(r, t.S, c, depth+1), t.Ptr)
		}
	case schema.List:
		return schema.ListOf(evolveType(r, t.Elem, c, depth))
	case schema.Set:
		return schema.SetOf(evolveType(r, t.Elem, c, depth))
	case schema.Map:
		return schema.MapOf(evolveType(r, t.Key, c, depth), evolveType(r, t.Elem, c, depth))
	}
	return t
}

var retypeForms = []string{"bool", "i8", "i16", "i32", "i64", "double", "string", "binary", "list", "map", "set", "*struct"}

func retype(r *Rand, t *schema.Type) *schema.Type {
	tc := &TypeCfg{MaxDepth: 1, MaxFields: 2}
	for {
		nt := FormType(r, retypeForms[r.Intn(len(retypeForms))], tc, 1)
		if nt.WT() != t.WT() {
			return nt
		}
	}
}

// StripHolders returns a fresh twin of dynamic struct t with the same fields
// and no unknown-fields holder at any (dynamic) nesting level.
func StripHolders(t *schema.Struct) *schema.Struct {
	if !isDynamic(t) {
		return t
	}
	n := &schema.Struct{UnknownIdx: -1}
	for _, f := range t.Fields {
		n.Fields = append(n.Fields, &schema.Field{ID: f.ID, Req: f.Req, T: stripType(f.T), NoCopy: f.NoCopy})
	}
	n.Build()
	return n
}

func stripType(t *schema.Type) *schema.Type {
	switch t.K {
	case schema.StructK:
		return schema.StructOf(StripHolders(t.S), t.Ptr)
	case schema.List:
		return schema.ListOf(stripType(t.Elem))
	case schema.Set:
		return schema.SetOf(stripType(t.Elem))
	case schema.Map:
		return schema.MapOf(stripType(t.Key), stripType(t.Elem))
	}
	return t
}
