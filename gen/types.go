package gen

import (
	"fmt"
	"reflect"
	"sync"

	"verif/schema"
	"verif/zoo"
)

var (
	zooMu    sync.Mutex
	zooCache = map[reflect.Type]*schema.Struct{}
)

// Zoo returns the (cached) schema of a static zoo type given as pointer value
// or reflect.Type.
func Zoo(x interface{}) *schema.Struct {
	var t reflect.Type
	switch v := x.(type) {
	case reflect.Type:
		t = v
	default:
		t = reflect.TypeOf(x)
	}
	for t.Kind() == reflect.Ptr {
		t = t.Elem()
	}
	zooMu.Lock()
	defer zooMu.Unlock()
	if s := zooCache[t]; s != nil {
		return s
	}
	s, err := schema.FromGo(t)
	if err != nil {
		panic(fmt.Sprintf("zoo type %v does not parse: %v", t, err))
	}
	zooCache[t] = s
	return s
}

var IDClasses = []uint16{0, 1, 15, 16, 63, 64, 65, 127, 128, 255, 256, 257, 4095, 4096, 32767, 32768, 65534, 65535}

var ScalarKinds = []schema.Kind{schema.Bool, schema.I8, schema.I16, schema.I32, schema.I64, schema.Double, schema.Enum}

// KeyForms and ValForms name the cells of the map matrix.
var KeyForms = []string{"bool", "i8", "i16", "i32", "i64", "double", "enum", "string", "*struct"}
var ValForms = []string{"bool", "i8", "i16", "i32", "i64", "double", "enum", "string", "binary", "*struct", "struct", "map", "set", "list"}

// TypeCfg steers type generation.
type TypeCfg struct {
	MaxDepth  int
	MaxFields int
	NoCopy    bool // allow nocopy string/binary fields
	Unknown   bool // allow _unknownFields holders
	Extras    bool // allow ignored Go fields
	ZooNest   bool // nest static zoo types
	BigIDs    bool // allow ids above 4096 (each costs a 512 KiB index in frugal)
	Required  bool // allow required fields
}

func DefaultTypeCfg() *TypeCfg {
	return &TypeCfg{MaxDepth: 3, MaxFields: 8, Unknown: true, Extras: true, ZooNest: true, BigIDs: true, Required: true}
}

func enumType(r *Rand) *schema.Type {
	return schema.EnumOf(zoo.Enums[r.Intn(len(zoo.Enums))])
}

// FormType builds the type for a matrix form name.
func FormType(r *Rand, form string, c *TypeCfg, depth int) *schema.Type {
	switch form {
	case "bool":
		return schema.Scalar(schema.Bool)
	case "i8":
		return schema.Scalar(schema.I8)
	case "i16":
		return schema.Scalar(schema.I16)
	case "i32":
		return schema.Scalar(schema.I32)
	case "i64":
		if r.Chance(1, 5) {
			// a named int64 Go type annotated as plain i64 (the same Go types also
			// serve as enums elsewhere in the process)
			return schema.NamedI64(zoo.Enums[r.Intn(len(zoo.Enums))])
		}
		return schema.Scalar(schema.I64)
	case "double":
		return schema.Scalar(schema.Double)
	case "enum":
		return enumType(r)
	case "string":
		return schema.Scalar(schema.String)
	case "binary":
		return schema.Scalar(schema.Binary)
	case "*struct":
		return schema.StructOf(nestedStruct(r, c, depth+1), true)
	case "struct":
		return schema.StructOf(nestedStruct(r, c, depth+1), false)
	case "map":
		return schema.MapOf(FormType(r, KeyForms[r.Intn(keyChoices(r, c, depth))], c, depth+1), FormType(r, ValForms[r.Intn(elemChoices(r, c, depth, 9))], c, depth+1))
	case "set":
		return schema.SetOf(FormType(r, ValForms[r.Intn(elemChoices(r, c, depth, 8))], c, depth+1))
	case "list":
		return schema.ListOf(FormType(r, ValForms[r.Intn(elemChoices(r, c, depth, 11))], c, depth+1))
	}
	panic("gen: unknown form " + form)
}

// elemChoices widens the element forms to containers of containers (and structs)
// while the nesting budget lasts; base is the number of leaf forms always allowed.
func elemChoices(r *Rand, c *TypeCfg, depth, base int) int {
	if depth+1 < c.MaxDepth && r.Chance(1, 3) {
		return len(ValForms)
	}
	return base
}

func keyChoices(r *Rand, c *TypeCfg, depth int) int {
	if depth+1 < c.MaxDepth && r.Chance(1, 6) {
		return len(KeyForms) // includes *struct keys
	}
	return 8
}

func nestedStruct(r *Rand, c *TypeCfg, depth int) *schema.Struct {
	if c.ZooNest && r.Chance(1, 3) {
		return Zoo(zoo.Nestable[r.Intn(len(zoo.Nestable))])
	}
	return RandomStruct(r, c, depth)
}

// Single returns a fresh one-field struct {id: t} with the given requiredness.
func Single(id uint16, req schema.Req, t *schema.Type) *schema.Struct {
	s := &schema.Struct{Fields: []*schema.Field{{ID: id, Req: req, T: t}}, UnknownIdx: -1}
	s.Build()
	return s
}

// RandomType returns a random type expression usable as a struct field.
func RandomType(r *Rand, c *TypeCfg, depth int, req schema.Req) *schema.Type {
	max := len(ValForms)
	if depth >= c.MaxDepth {
		max = 9 // no nesting below the limit
	}
	form := ValForms[r.Intn(max)]
	t := FormType(r, form, c, depth)
	if req == schema.Optional && (t.IsScalar() || t.K == schema.String || t.K == schema.Binary) && r.Chance(1, 2) {
		t = schema.PtrTo(t)
	}
	return t
}

// RandomStruct generates and builds a fresh dynamic struct type.
func RandomStruct(r *Rand, c *TypeCfg, depth int) *schema.Struct {
	s := &schema.Struct{UnknownIdx: -1}
	nf := 1 + r.Intn(c.MaxFields)
	if depth > 0 {
		nf = 1 + r.Intn(4)
	}
	if r.Chance(1, 40) {
		nf = 0
	}
	used := map[uint16]bool{}
	// id profile: some structs have no small id at all (every id above a base)
	base := 0
	if r.Chance(1, 10) {
		base = []int{200, 1024, 2000, 4000}[r.Intn(4)]
	}
	for i := 0; i < nf; i++ {
		var id uint16
		for {
			switch {
			case r.Chance(1, 5):
				id = IDClasses[r.Intn(len(IDClasses))]
			case r.Chance(1, 8):
				id = uint16(r.Intn(65536))
			default:
				id = uint16(base + 1 + r.Intn(40))
			}
			if id > 4096 && (!c.BigIDs || !r.Chance(1, 6)) {
				continue
			}
			if int(id) < base {
				continue
			}
			if !used[id] {
				break
			}
		}
		used[id] = true
		req := schema.Req(r.Intn(3))
		if req == schema.Required && !c.Required {
			req = schema.Default
		}
		f := &schema.Field{ID: id, Req: req, T: RandomType(r, c, depth, req)}
		if c.NoCopy && (f.T.K == schema.String || f.T.K == schema.Binary) && r.Bool() {
			f.NoCopy = true
			if r.Chance(1, 3) {
				// the option also applies when the type descriptor is left empty
				f.Tag = fmt.Sprintf(`frugal:"%d,%s,,nocopy"`, f.ID, f.Req)
			}
		}
		s.Fields = append(s.Fields, f)
	}
	if c.Unknown && r.Chance(1, 5) {
		s.HasUnknown = true
	}
	if c.Extras && r.Chance(1, 6) {
		s.Extras = append(s.Extras, &schema.Extra{Name: schema.UniqueName("Untagged"), Type: reflect.TypeOf(int32(0))})
		if r.Bool() {
			s.Extras = append(s.Extras, &schema.Extra{Name: "priv", PkgPath: "verif/dyn", Type: reflect.TypeOf(""), Tag: `frugal:"1,default,string"`})
		}
		if r.Bool() {
			// an embedded field is ignored even when it is exported and carries a valid tag
			id := uint16(5000 + r.Intn(1000))
			if !used[id] {
				s.Extras = append(s.Extras, &schema.Extra{Name: "Inner", Embedded: true, Type: reflect.TypeOf(zoo.Inner{}), Tag: fmt.Sprintf(`frugal:"%d,default,Inner"`, id)})
			}
		}
	}
	// Go field order is independent of id order
	s.SortFields()
	n := len(s.Fields)
	order := r.Perm(n)
	for i := range s.Extras {
		order = append(order, -1-i)
	}
	if s.HasUnknown {
		order = append(order, schema.UnknownMarker)
	}
	// shuffle the tail entries in
	for i := len(order) - 1; i >= n && i > 0; i-- {
		j := r.Intn(i + 1)
		order[i], order[j] = order[j], order[i]
	}
	s.GoOrder = order
	s.Build()
	return s
}

// MatrixStruct returns the one-field struct of map cell (key form, value form).
func MatrixStruct(r *Rand, kf, vf string) *schema.Struct {
	c := &TypeCfg{MaxDepth: 2, MaxFields: 3, ZooNest: true, Required: false}
	t := schema.MapOf(FormType(r, kf, c, 1), FormType(r, vf, c, 1))
	return Single(uint16(1+r.Intn(20)), schema.Default, t)
}

// ListStruct returns the one-field struct holding list<form> or set<form>.
func ListStruct(r *Rand, set bool, ef string) *schema.Struct {
	c := &TypeCfg{MaxDepth: 2, MaxFields: 3, ZooNest: true, Required: false}
	e := FormType(r, ef, c, 1)
	t := schema.ListOf(e)
	if set {
		t = schema.SetOf(e)
	}
	return Single(uint16(1+r.Intn(20)), schema.Default, t)
}
