// Package gen holds the seeded generators for types, values and messages.
// No wall clock or global state enters any of them: every case is a function
// of (seed, check id, case index).
package gen

import "math"

// Rand is a splitmix64 generator; Split derives an independent stream.
type Rand struct{ s uint64 }

func New(seed uint64) *Rand { return &Rand{s: seed*0x9e3779b97f4a7c15 + 0x1234567} }

// For derives the generator of one case.
func For(seed uint64, check string, idx int) *Rand {
	h := seed
	for _, c := range []byte(check) {
		h = (h ^ uint64(c)) * 0x100000001b3
	}
	r := New(h ^ (uint64(idx)+1)*0xd6e8feb86659fd93)
	r.Uint64()
	return r
}

func (r *Rand) Uint64() uint64 {
	r.s += 0x9e3779b97f4a7c15
	z := r.s
	z = (z ^ (z >> 30)) * 0xbf58476d1ce4e5b9
	z = (z ^ (z >> 27)) * 0x94d049bb133111eb
	return z ^ (z >> 31)
}

func (r *Rand) Split() *Rand { return New(r.Uint64()) }

func (r *Rand) Intn(n int) int {
	if n <= 0 {
		return 0
	}
	return int(r.Uint64() % uint64(n))
}

func (r *Rand) Bool() bool { return r.Uint64()&1 == 1 }

// Chance is true with probability num/den.
func (r *Rand) Chance(num, den int) bool { return r.Intn(den) < num }

func (r *Rand) Perm(n int) []int {
	p := make([]int, n)
	for i := range p {
		p[i] = i
	}
	for i := n - 1; i > 0; i-- {
		j := r.Intn(i + 1)
		p[i], p[j] = p[j], p[i]
	}
	return p
}

func (r *Rand) Bytes(n int) []byte {
	b := make([]byte, n)
	for i := 0; i < n; i += 8 {
		x := r.Uint64()
		for j := 0; j < 8 && i+j < n; j++ {
			b[i+j] = byte(x >> (8 * j))
		}
	}
	return b
}

var i64Edges = []int64{0, 1, -1, math.MaxInt64, math.MinInt64, 0x5555555555555555, -0x5555555555555556, 0x7f, 0x80, 0xff, 0x100, 0x7fff, 0x8000, 0xffff, 0x7fffffff, 0x80000000, 0xffffffff, 0x100000000, -0x80, -0x81, -0x8000, -0x8001, -0x80000000, -0x80000001}

// Int64 returns a boundary-biased 64-bit value.
func (r *Rand) Int64() int64 {
	if r.Chance(1, 2) {
		return i64Edges[r.Intn(len(i64Edges))]
	}
	x := int64(r.Uint64())
	switch r.Intn(4) {
	case 0:
		return x >> 56
	case 1:
		return x >> 32
	}
	return x
}

var f64Edges = []uint64{
	0, 0x8000000000000000, // ±0
	0x7ff0000000000000, 0xfff0000000000000, // ±Inf
	0x7ff8000000000000, 0x7ff8000000000001, 0xfff8000000000000, 0x7ff0000000000001, 0x7fffffffffffffff, // NaNs with payloads
	0x0000000000000001, 0x000fffffffffffff, // denormals
	0x3ff0000000000000, 0xbff0000000000000, 0x7fefffffffffffff, 0x0010000000000000,
}

// Float64 returns boundary-biased float bits as a float64.
func (r *Rand) Float64() float64 {
	if r.Chance(1, 2) {
		return math.Float64frombits(f64Edges[r.Intn(len(f64Edges))])
	}
	return math.Float64frombits(r.Uint64())
}

// FloatNoNaN avoids NaN (used for map keys where duplicates would be ambiguous
// only if requested by the caller).
func (r *Rand) FloatNoNaN() float64 {
	for {
		f := r.Float64()
		if f == f {
			return f
		}
	}
}
