#!/usr/bin/env python3
# Regenerates MANIFEST.json from the table below (kept in one place so that the
# file is always schema-valid).
import json, sys
checks = json.load(open('/verif/manifest_checks.json'))
props = [json.loads(l)['id'] for l in open('/verif/properties.jsonl')]
m = {
 "version": 1,
 "setup_cmd": "./setup.sh",
 "hooks": {
  "guard": "verif",
  "enable": "go build -tags verif (the worker cmd/vworker is always built with it, from /repo's working tree through the replace directive in /verif/go.mod)",
  "baseline_off_cmd": "./baseline_off.sh",
  "source_commits": checks["hook_commits"],
  "add_only": True
 },
 "engines": [
  {"name": "vcheck+vworker", "path": "cmd/vcheck, cmd/vworker, checks/, harness/, mon/, ref/, wire/, gen/, schema/, zoo/, xthrift/",
   "serves_properties": [c["property_id"] for c in checks["checks"]],
   "kind_free_text": "runtime monitoring: generated/hostile workloads executed against the real code in isolated child processes (plain, checkptr, race, ASan, GC-stress builds) under oracles: reference codec, schema-less wire parser, Apache Thrift cross-parser, guard pages/canaries, memory walker, pool sanitizer and allocator monitor hooks"}
 ],
 "checks": [],
 "not_applicable": [],
 "notes": checks.get("notes", "")
}
claimed = set()
for c in checks["checks"]:
    pid = c["property_id"]
    claimed.add(pid)
    m["checks"].append({
        "property_id": pid,
        "quick_cmd": "./run.sh %s quick" % pid,
        "thorough_cmd": "./run.sh %s thorough" % pid,
        "evidence_file": "/verif/evidence/%s.json" % pid,
        "replay_cmd_template": "./run.sh replay {path}",
        "engine": "vcheck+vworker",
        "level_claimed": {"category": "exploration", "text": c["text"], "design_ref": c.get("design_ref", "DESIGN.md §2 " + pid)},
        "level_note": c["note"],
        "technique": c["technique"],
    })
for p in props:
    if p not in claimed:
        m["not_applicable"].append({"property_id": p, "reason": checks["unclaimed"].get(p, "check not built yet in this revision (runtime monitoring applies; see DESIGN.md §2)")})
json.dump(m, open('/verif/MANIFEST.json', 'w'), indent=1)
print("claimed", sorted(claimed))
