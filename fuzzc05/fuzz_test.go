// Package fuzzc05 is the coverage-guided workload generator of C05's thorough
// tier: go's native fuzzer mutates byte strings, the deciding step is the same
// monitor as in checks/c05.go (guard page, reference verdict, allocation bound).
package fuzzc05

import (
	"fmt"
	"reflect"
	"runtime/metrics"
	"testing"

	"github.com/cloudwego/frugal"

	"verif/gen"
	"verif/mon"
	"verif/ref"
	"verif/schema"
	"verif/zoo"
)

var targets []*schema.Struct

func init() {
	for _, z := range []interface{}{&zoo.Node{}, &zoo.Wide{}, &zoo.Defs2{}, &zoo.UnknownNest{}, &zoo.MutA{}, &zoo.LeafReq{}, &zoo.Spelling{}} {
		targets = append(targets, gen.Zoo(z))
	}
	r := gen.New(20260923)
	tc := gen.DefaultTypeCfg()
	tc.BigIDs = false
	for i := 0; i < 6; i++ {
		targets = append(targets, gen.RandomStruct(r, tc, 0))
	}
	// every map cell once
	for _, k := range gen.KeyForms {
		targets = append(targets, gen.MatrixStruct(r, k, gen.ValForms[r.Intn(len(gen.ValForms))]))
	}
	for _, s := range targets {
		frugal.DecodeObject([]byte{0}, reflect.New(s.Go).Interface())
	}
}

func allocBytes() uint64 {
	s := []metrics.Sample{{Name: "/gc/heap/allocs:bytes"}}
	metrics.Read(s)
	return s[0].Value.Uint64()
}

func FuzzDecode(f *testing.F) {
	r := gen.New(7)
	for ti, s := range targets {
		for k := 0; k < 4; k++ {
			v := gen.NewValue(r, s, gen.DefaultValCfg())
			msg := ref.Encode(s, v.Elem())
			if len(msg) < 4096 {
				f.Add(uint8(ti), msg)
			}
		}
	}
	f.Fuzz(func(t *testing.T, ti uint8, in []byte) {
		if len(in) > 1<<16 {
			return
		}
		s := targets[int(ti)%len(targets)]
		g, reg := mon.GuardedCopy(in, true)
		defer reg.Free()
		rd := reflect.New(s.Go)
		rn, info, rerr := ref.Decode(s, in, rd.Elem())
		dst := reflect.New(s.Go)
		a0 := allocBytes()
		n, err := frugal.DecodeObject(g, dst.Interface()) // a panic or fault fails the fuzz run
		a1 := allocBytes()
		if a1-a0 > uint64(64<<10)+16*uint64(512+16)*uint64(len(in)) {
			d2 := reflect.New(s.Go)
			a0 = allocBytes()
			frugal.DecodeObject(g, d2.Interface())
			if a1 = allocBytes(); a1-a0 > uint64(64<<10)+16*uint64(512+16)*uint64(len(in)) {
				t.Fatalf("VIOLATION alloc: %d bytes allocated for a %d-byte input (type %s)", a1-a0, len(in), s.Describe())
			}
		}
		lenient := info.Lenient || info.MaxLevel > 48
		switch {
		case rerr == nil && !lenient:
			if err != nil {
				t.Fatalf("VIOLATION rejects-wellformed: %v (type %s)", err, s.Describe())
			}
			if n != rn {
				t.Fatalf("VIOLATION n=%d want %d (type %s)", n, rn, s.Describe())
			}
		case rerr != nil && !lenient && rerr.Class != ref.TooDeep:
			if err == nil {
				t.Fatalf("VIOLATION accepts-malformed: reference says %v at %d (type %s)", rerr.Class, rerr.Off, s.Describe())
			}
		}
		_ = fmt.Sprint
	})
}
