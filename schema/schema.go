// Package schema is the harness' own description of "what a Go struct type means
// as a Thrift schema". It is independent of frugal's tag resolver: types are
// either generated from an IR value (Build) or read back from struct tags by the
// harness' own parser (FromGo, tagparse.go). Everything the reference model does
// is driven by this IR, never by frugal's descriptors.
package schema

import (
	"fmt"
	"reflect"
	"sort"
	"strings"
)

type Kind uint8

const (
	Bool Kind = iota + 1
	I8
	I16
	I32
	I64
	Double
	Enum
	String
	Binary
	StructK
	List
	Set
	Map
)

var kindNames = [...]string{"?", "bool", "i8", "i16", "i32", "i64", "double", "enum", "string", "binary", "struct", "list", "set", "map"}

func (k Kind) String() string { return kindNames[k] }

// Thrift wire type codes.
const (
	WStop   = 0
	WBool   = 2
	WByte   = 3
	WDouble = 4
	WI16    = 6
	WI32    = 8
	WI64    = 10
	WString = 11
	WStruct = 12
	WMap    = 13
	WSet    = 14
	WList   = 15
)

type Req uint8

const (
	Default Req = iota
	Required
	Optional
)

var reqNames = [...]string{"default", "required", "optional"}

func (r Req) String() string { return reqNames[r] }

// Type is one node of a schema type expression together with its Go representation.
type Type struct {
	K    Kind
	Ptr  bool    // Go representation is *Base (struct pointers, optional scalar/string pointers)
	Key  *Type   // Map
	Elem *Type   // List, Set, Map value
	S    *Struct // StructK
	// GoNamed is the named Go type used for Enum (kind int64, Name()==EnumName)
	GoNamed  reflect.Type
	EnumName string
}

func (t *Type) WT() byte {
	switch t.K {
	case Bool:
		return WBool
	case I8:
		return WByte
	case I16:
		return WI16
	case I32, Enum:
		return WI32
	case I64:
		return WI64
	case Double:
		return WDouble
	case String, Binary:
		return WString
	case StructK:
		return WStruct
	case List:
		return WList
	case Set:
		return WSet
	case Map:
		return WMap
	}
	panic("bad kind")
}

// FixedWire returns the wire size of a fixed-width kind, 0 otherwise.
func (t *Type) FixedWire() int {
	switch t.K {
	case Bool, I8:
		return 1
	case I16:
		return 2
	case I32, Enum:
		return 4
	case I64, Double:
		return 8
	}
	return 0
}

func (t *Type) IsScalar() bool { return t.K >= Bool && t.K <= Enum }

// GoBase returns the Go type without the pointer.
func (t *Type) GoBase() reflect.Type {
	switch t.K {
	case Bool:
		return reflect.TypeOf(false)
	case I8:
		return reflect.TypeOf(int8(0))
	case I16:
		return reflect.TypeOf(int16(0))
	case I32:
		return reflect.TypeOf(int32(0))
	case I64:
		if t.GoNamed != nil {
			return t.GoNamed // a named int64 type used as plain i64 (annotation "i64" or none)
		}
		return reflect.TypeOf(int64(0))
	case Double:
		return reflect.TypeOf(float64(0))
	case Enum:
		return t.GoNamed
	case String:
		return reflect.TypeOf("")
	case Binary:
		return reflect.TypeOf([]byte(nil))
	case StructK:
		return t.S.Go
	case List, Set:
		return reflect.SliceOf(t.Elem.Go())
	case Map:
		return reflect.MapOf(t.Key.Go(), t.Elem.Go())
	}
	panic("bad kind")
}

func (t *Type) Go() reflect.Type {
	b := t.GoBase()
	if t.Ptr {
		return reflect.PtrTo(b)
	}
	return b
}

// Expr is the canonical annotation string (what goes in the struct tag).
func (t *Type) Expr() string {
	switch t.K {
	case Enum:
		return t.EnumName
	case StructK:
		return t.S.Name
	case List:
		return "list<" + t.Elem.Expr() + ">"
	case Set:
		return "set<" + t.Elem.Expr() + ">"
	case Map:
		return "map<" + t.Key.Expr() + ":" + t.Elem.Expr() + ">"
	}
	return t.K.String()
}

// Sig is a shape signature: kinds, pointer-ness and nesting, structs abbreviated
// by their field shapes one level deep. Used to count distinct cases.
func (t *Type) Sig() string { return t.sig(2) }

// SigShallow abstracts struct contents away (used in violation signatures).
func (t *Type) SigShallow() string { return t.sig(0) }

func (t *Type) sig(depth int) string {
	p := ""
	if t.Ptr {
		p = "*"
	}
	switch t.K {
	case StructK:
		if depth == 0 {
			return p + "S"
		}
		return p + t.S.sig(depth-1)
	case List:
		return p + "list<" + t.Elem.sig(depth) + ">"
	case Set:
		return p + "set<" + t.Elem.sig(depth) + ">"
	case Map:
		return p + "map<" + t.Key.sig(depth) + ":" + t.Elem.sig(depth) + ">"
	}
	return p + t.K.String()
}

// Field of a struct schema.
type Field struct {
	ID     uint16
	Req    Req
	T      *Type
	NoCopy bool
	Name   string // Go field name
	Index  int    // Go field index (set by Build / FromGo)
	Tag    string // raw struct tag (set by Build / FromGo)
}

// Extra is a Go field that the schema must ignore (untagged, unexported, embedded).
type Extra struct {
	Name     string
	PkgPath  string // non-empty => unexported
	Type     reflect.Type
	Tag      string
	Embedded bool
	Index    int
}

type Struct struct {
	Name   string   // annotation name
	Fields []*Field // ascending by ID
	Extras []*Extra // ignored Go fields
	Go     reflect.Type

	HasUnknown bool // declares _unknownFields []byte
	UnknownIdx int
	HasInit    bool // *Go implements InitDefault()

	// GoOrder lists, for Build, the order of Go fields: indices >=0 into Fields,
	// -1-i into Extras, unknownMarker for the holder. nil => declaration order.
	GoOrder []int
}

const UnknownMarker = 1 << 30

func (s *Struct) sig(depth int) string {
	var sb strings.Builder
	sb.WriteString("{")
	for i, f := range s.Fields {
		if i > 0 {
			sb.WriteString(";")
		}
		sb.WriteString(f.Req.String()[:1])
		if f.NoCopy {
			sb.WriteString("!")
		}
		sb.WriteString(f.T.sig(depth))
	}
	if s.HasUnknown {
		sb.WriteString(";U")
	}
	if s.HasInit {
		sb.WriteString(";D")
	}
	sb.WriteString("}")
	return sb.String()
}

func (s *Struct) Sig() string { return s.sig(2) }

func (s *Struct) FieldByID(id uint16) *Field {
	i := sort.Search(len(s.Fields), func(i int) bool { return s.Fields[i].ID >= id })
	if i < len(s.Fields) && s.Fields[i].ID == id {
		return s.Fields[i]
	}
	return nil
}

func (s *Struct) SortFields() {
	sort.SliceStable(s.Fields, func(i, j int) bool { return s.Fields[i].ID < s.Fields[j].ID })
}

// TagFor renders the canonical frugal tag of a field.
func TagFor(f *Field) string {
	t := fmt.Sprintf("%d,%s,%s", f.ID, f.Req, f.T.Expr())
	if f.NoCopy {
		t += ",nocopy"
	}
	return `frugal:"` + t + `"`
}

var typeCounter int

// UniqueName returns a process-unique exported identifier. reflect.StructOf
// de-duplicates structurally identical definitions, so every type that must be
// "fresh" carries one such name.
func UniqueName(prefix string) string {
	typeCounter++
	return fmt.Sprintf("%s%d", prefix, typeCounter)
}

// Build creates the Go type for s with reflect.StructOf (nested dynamic structs
// must have been built already). Field tags come from Field.Tag when set
// (alternative spellings), else the canonical frugal tag.
func (s *Struct) Build() {
	if s.Go != nil {
		return
	}
	s.SortFields()
	order := s.GoOrder
	if order == nil {
		for i := range s.Fields {
			order = append(order, i)
		}
		for i := range s.Extras {
			order = append(order, -1-i)
		}
		if s.HasUnknown {
			order = append(order, UnknownMarker)
		}
	}
	var sf []reflect.StructField
	for gi, o := range order {
		switch {
		case o == UnknownMarker:
			sf = append(sf, reflect.StructField{Name: "_unknownFields", PkgPath: "verif/dyn", Type: reflect.TypeOf([]byte(nil))})
			s.UnknownIdx = gi
		case o >= 0:
			f := s.Fields[o]
			if f.T.K == StructK && f.T.S.Go == nil {
				f.T.S.Build()
			}
			if f.Name == "" {
				f.Name = UniqueName("F")
			}
			if f.Tag == "" {
				f.Tag = TagFor(f)
			}
			f.Index = gi
			sf = append(sf, reflect.StructField{Name: f.Name, Type: f.T.Go(), Tag: reflect.StructTag(f.Tag)})
		default:
			e := s.Extras[-1-o]
			e.Index = gi
			sf = append(sf, reflect.StructField{Name: e.Name, PkgPath: e.PkgPath, Type: e.Type, Tag: reflect.StructTag(e.Tag), Anonymous: e.Embedded})
		}
	}
	s.Go = reflect.StructOf(sf)
	if s.Name == "" {
		s.Name = "Dyn"
	}
}

// ensureBuilt walks a type expression and builds any dynamic struct in it.
func EnsureBuilt(t *Type) {
	switch t.K {
	case StructK:
		t.S.Build()
	case List, Set:
		EnsureBuilt(t.Elem)
	case Map:
		EnsureBuilt(t.Key)
		EnsureBuilt(t.Elem)
	}
}

// Equal reports whether two schemas mean the same thing (ids, requiredness,
// kinds, nesting, options, Go representation), following struct references
// with a visited set so that recursive schemas terminate.
func Equal(a, b *Struct) (bool, string) {
	return eqStruct(a, b, map[[2]*Struct]bool{}, "")
}

func eqStruct(a, b *Struct, seen map[[2]*Struct]bool, path string) (bool, string) {
	k := [2]*Struct{a, b}
	if seen[k] {
		return true, ""
	}
	seen[k] = true
	if len(a.Fields) != len(b.Fields) {
		return false, fmt.Sprintf("%s: %d vs %d fields", path, len(a.Fields), len(b.Fields))
	}
	if a.HasUnknown != b.HasUnknown || a.HasInit != b.HasInit {
		return false, path + ": holder/init differ"
	}
	for i := range a.Fields {
		fa, fb := a.Fields[i], b.Fields[i]
		p := fmt.Sprintf("%s.%d", path, fa.ID)
		if fa.ID != fb.ID || fa.Req != fb.Req || fa.NoCopy != fb.NoCopy || fa.Index != fb.Index {
			return false, fmt.Sprintf("%s: id/req/nocopy/index differ (%d,%v,%v,%d) vs (%d,%v,%v,%d)", p, fa.ID, fa.Req, fa.NoCopy, fa.Index, fb.ID, fb.Req, fb.NoCopy, fb.Index)
		}
		if ok, why := eqType(fa.T, fb.T, seen, p); !ok {
			return false, why
		}
	}
	return true, ""
}

func eqType(a, b *Type, seen map[[2]*Struct]bool, path string) (bool, string) {
	if a.K != b.K || a.Ptr != b.Ptr {
		return false, fmt.Sprintf("%s: %v/%v vs %v/%v", path, a.K, a.Ptr, b.K, b.Ptr)
	}
	switch a.K {
	case StructK:
		if a.S.Go != b.S.Go {
			return false, path + ": go struct types differ"
		}
		return eqStruct(a.S, b.S, seen, path)
	case List, Set:
		return eqType(a.Elem, b.Elem, seen, path+"[]")
	case Map:
		if ok, why := eqType(a.Key, b.Key, seen, path+"[k]"); !ok {
			return false, why
		}
		return eqType(a.Elem, b.Elem, seen, path+"[v]")
	case Enum, I64:
		if a.GoNamed != b.GoNamed && !(a.K == I64 && a.GoBase() == b.GoBase()) {
			return false, path + ": named integer go types differ"
		}
	}
	return true, ""
}

// Describe renders a struct schema for logs and replay files.
func (s *Struct) Describe() string {
	return s.describe(map[*Struct]bool{})
}

func (s *Struct) describe(seen map[*Struct]bool) string {
	if seen[s] {
		return s.Name + "{...}"
	}
	seen[s] = true
	defer delete(seen, s)
	var sb strings.Builder
	sb.WriteString(s.Name + "{")
	for i, f := range s.Fields {
		if i > 0 {
			sb.WriteString("; ")
		}
		fmt.Fprintf(&sb, "%d:%s %s", f.ID, f.Req.String()[:3], f.T.describe(seen))
		if f.NoCopy {
			sb.WriteString(",nocopy")
		}
	}
	if s.HasUnknown {
		sb.WriteString("; _unknownFields")
	}
	if s.HasInit {
		sb.WriteString("; InitDefault")
	}
	sb.WriteString("}")
	return sb.String()
}

func (t *Type) describe(seen map[*Struct]bool) string {
	p := ""
	if t.Ptr {
		p = "*"
	}
	switch t.K {
	case StructK:
		return p + t.S.describe(seen)
	case List:
		return "list<" + t.Elem.describe(seen) + ">"
	case Set:
		return "set<" + t.Elem.describe(seen) + ">"
	case Map:
		return "map<" + t.Key.describe(seen) + ":" + t.Elem.describe(seen) + ">"
	case Enum:
		return p + "enum(" + t.EnumName + ")"
	case I64:
		if t.GoNamed != nil {
			return p + "i64(go " + t.GoNamed.Name() + ")"
		}
	}
	return p + t.K.String()
}

// Helpers to construct types.
func Scalar(k Kind) *Type { return &Type{K: k} }
func PtrTo(t *Type) *Type  { c := *t; c.Ptr = true; return &c }
func ListOf(e *Type) *Type { return &Type{K: List, Elem: e} }
func SetOf(e *Type) *Type  { return &Type{K: Set, Elem: e} }
func MapOf(k, v *Type) *Type {
	return &Type{K: Map, Key: k, Elem: v}
}
func StructOf(s *Struct, ptr bool) *Type { return &Type{K: StructK, S: s, Ptr: ptr} }
// NamedI64 is a named int64-kind Go type used as a plain i64.
func NamedI64(named reflect.Type) *Type { return &Type{K: I64, GoNamed: named} }

func EnumOf(named reflect.Type) *Type {
	return &Type{K: Enum, GoNamed: named, EnumName: named.Name()}
}
