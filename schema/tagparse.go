package schema

import (
	"fmt"
	"reflect"
	"strconv"
	"strings"
)

// FromGo derives the schema of a Go struct type from its field tags with the
// harness' own parser. Grammar (from the property statement, the README and the
// package documentation, not from the implementation under test):
//
//	tag    := id ["," req ["," [type] {"," option}]]
//	          frugal:"…" is taken whole; thrift:"name,…" loses its first element;
//	          the frugal tag wins when both are present; elements are space-trimmed
//	req    := default | required | optional        (default when omitted)
//	type   := kw | [pkg "."] Name | list<type> | set<type> | map<type:type>
//	kw     := bool | i8 | byte | i16 | i32 | i64 | double | string | binary
//	option := nocopy
//
// A Name on a named int64-kind Go type whose name it equals means enum; on a
// struct it names that struct (any name for an anonymous struct). Fields that are
// untagged, unexported or embedded are ignored.
func FromGo(t reflect.Type) (*Struct, error) {
	p := &parser{memo: map[reflect.Type]*Struct{}}
	return p.structOf(t)
}

type parser struct {
	memo map[reflect.Type]*Struct
}

func (p *parser) structOf(t reflect.Type) (*Struct, error) {
	if t.Kind() != reflect.Struct {
		return nil, fmt.Errorf("%v: not a struct", t)
	}
	if s := p.memo[t]; s != nil {
		return s, nil
	}
	s := &Struct{Name: t.Name(), Go: t, UnknownIdx: -1}
	if s.Name == "" {
		s.Name = "Dyn"
	}
	p.memo[t] = s
	if m, ok := reflect.PtrTo(t).MethodByName("InitDefault"); ok && m.Type.NumIn() == 1 && m.Type.NumOut() == 0 {
		s.HasInit = true
	}
	seen := map[uint16]bool{}
	for i := 0; i < t.NumField(); i++ {
		sf := t.Field(i)
		if sf.Name == "_unknownFields" && sf.Type.Kind() == reflect.Slice && sf.Type.Elem().Kind() == reflect.Uint8 {
			s.HasUnknown = true
			s.UnknownIdx = i
			continue
		}
		els, tagged := lookupTag(sf.Tag)
		if sf.Anonymous || sf.PkgPath != "" || !tagged {
			s.Extras = append(s.Extras, &Extra{Name: sf.Name, PkgPath: sf.PkgPath, Type: sf.Type, Tag: string(sf.Tag), Embedded: sf.Anonymous, Index: i})
			continue
		}
		if len(els) == 0 {
			return nil, fmt.Errorf("%v.%s: empty tag", t, sf.Name)
		}
		id, err := strconv.ParseUint(els[0], 10, 16)
		if err != nil {
			return nil, fmt.Errorf("%v.%s: bad id %q", t, sf.Name, els[0])
		}
		if seen[uint16(id)] {
			return nil, fmt.Errorf("%v.%s: duplicate id %d", t, sf.Name, id)
		}
		seen[uint16(id)] = true
		f := &Field{ID: uint16(id), Name: sf.Name, Index: i, Tag: string(sf.Tag)}
		els = els[1:]
		if len(els) > 0 {
			switch els[0] {
			case "default":
				f.Req = Default
			case "required":
				f.Req = Required
			case "optional":
				f.Req = Optional
			default:
				return nil, fmt.Errorf("%v.%s: bad requiredness %q", t, sf.Name, els[0])
			}
			els = els[1:]
		}
		ann := ""
		if len(els) > 0 {
			ann = els[0]
			els = els[1:]
		}
		for _, o := range els {
			if o != "nocopy" || f.NoCopy {
				return nil, fmt.Errorf("%v.%s: bad option %q", t, sf.Name, o)
			}
			f.NoCopy = true
		}
		tp := &typeParser{p: p, toks: tokenize(ann), has: ann != ""}
		ft, err := tp.parse(sf.Type, true)
		if err != nil {
			return nil, fmt.Errorf("%v.%s: %w", t, sf.Name, err)
		}
		if tp.has && tp.pos != len(tp.toks) {
			return nil, fmt.Errorf("%v.%s: trailing tokens in %q", t, sf.Name, ann)
		}
		if ft.Ptr && ft.K != StructK && f.Req != Optional {
			return nil, fmt.Errorf("%v.%s: pointer to non-struct on a non-optional field", t, sf.Name)
		}
		if f.NoCopy && ft.K != String && ft.K != Binary {
			return nil, fmt.Errorf("%v.%s: nocopy on %v", t, sf.Name, ft.K)
		}
		f.T = ft
		s.Fields = append(s.Fields, f)
	}
	s.SortFields()
	return s, nil
}

func lookupTag(tag reflect.StructTag) ([]string, bool) {
	if v, ok := tag.Lookup("frugal"); ok {
		return trimAll(strings.Split(v, ",")), true
	}
	if v, ok := tag.Lookup("thrift"); ok {
		return trimAll(strings.Split(v, ",")[1:]), true
	}
	return nil, false
}

func trimAll(ss []string) []string {
	for i := range ss {
		ss[i] = strings.TrimSpace(ss[i])
	}
	return ss
}

func tokenize(s string) []string {
	var out []string
	i := 0
	isid0 := func(c byte) bool { return c == '_' || c >= 'a' && c <= 'z' || c >= 'A' && c <= 'Z' }
	isid := func(c byte) bool { return isid0(c) || c >= '0' && c <= '9' }
	for i < len(s) {
		c := s[i]
		if c == ' ' || c == '\t' || c == '\n' || c == '\r' {
			i++
			continue
		}
		j := i + 1
		if isid0(c) {
			for j < len(s) && isid(s[j]) {
				j++
			}
		}
		out = append(out, s[i:j])
		i = j
	}
	return out
}

type typeParser struct {
	p    *parser
	toks []string
	pos  int
	has  bool // an annotation was given
}

func (tp *typeParser) next() (string, error) {
	if tp.pos >= len(tp.toks) {
		return "", fmt.Errorf("unexpected end of annotation")
	}
	t := tp.toks[tp.pos]
	tp.pos++
	return t, nil
}

func (tp *typeParser) expect(tok string) error {
	if !tp.has {
		return nil
	}
	t, err := tp.next()
	if err != nil {
		return err
	}
	if t != tok {
		return fmt.Errorf("expected %q, got %q", tok, t)
	}
	return nil
}

// ident reads an identifier, possibly package qualified, and returns the last part.
func (tp *typeParser) ident() (string, error) {
	t, err := tp.next()
	if err != nil {
		return "", err
	}
	if tp.pos < len(tp.toks) && tp.toks[tp.pos] == "." {
		tp.pos++
		return tp.next()
	}
	return t, nil
}

func (tp *typeParser) parse(gt reflect.Type, allowPtr bool) (*Type, error) {
	if gt.Kind() == reflect.Ptr {
		if !allowPtr {
			return nil, fmt.Errorf("pointer to pointer")
		}
		t, err := tp.parse(gt.Elem(), false)
		if err != nil {
			return nil, err
		}
		if t.K == List || t.K == Set || t.K == Map {
			return nil, fmt.Errorf("pointer to container")
		}
		t.Ptr = true
		return t, nil
	}
	kw := func(names ...string) error {
		if !tp.has {
			return nil
		}
		t, err := tp.next()
		if err != nil {
			return err
		}
		for _, n := range names {
			if t == n {
				return nil
			}
		}
		return fmt.Errorf("annotation %q does not match Go type %v", t, gt)
	}
	switch gt.Kind() {
	case reflect.Bool:
		return &Type{K: Bool}, kw("bool")
	case reflect.Int8:
		return &Type{K: I8}, kw("i8", "byte", "int8")
	case reflect.Int16:
		return &Type{K: I16}, kw("i16", "int16")
	case reflect.Int32:
		return &Type{K: I32}, kw("i32", "int32")
	case reflect.Float64:
		return &Type{K: Double}, kw("double", "float64")
	case reflect.String:
		return &Type{K: String}, kw("string")
	case reflect.Int64, reflect.Int:
		plain := &Type{K: I64}
		if gt != reflect.TypeOf(int64(0)) {
			plain.GoNamed = gt
		}
		if !tp.has {
			return plain, nil
		}
		if tp.pos < len(tp.toks) && tp.toks[tp.pos] == "i64" {
			tp.pos++
			return plain, nil
		}
		name, err := tp.ident()
		if err != nil {
			return nil, err
		}
		if gt == reflect.TypeOf(int64(0)) && name == "int64" {
			return plain, nil // the builtin type annotated with its own Go name is a plain i64
		}
		if gt == reflect.TypeOf(int64(0)) || name != gt.Name() {
			return nil, fmt.Errorf("annotation %q does not match Go type %v", name, gt)
		}
		return &Type{K: Enum, GoNamed: gt, EnumName: name}, nil
	case reflect.Struct:
		if tp.has {
			name, err := tp.ident()
			if err != nil {
				return nil, err
			}
			if gt.Name() != "" && gt.Name() != name {
				return nil, fmt.Errorf("struct name %q does not match %v", name, gt)
			}
		}
		s, err := tp.p.structOf(gt)
		if err != nil {
			return nil, err
		}
		return &Type{K: StructK, S: s}, nil
	case reflect.Slice:
		if gt.Elem().Kind() == reflect.Uint8 {
			return &Type{K: Binary}, kw("binary")
		}
		if !tp.has {
			return nil, fmt.Errorf("slice %v without list/set annotation", gt)
		}
		t, err := tp.next()
		if err != nil {
			return nil, err
		}
		k := List
		switch t {
		case "list":
		case "set":
			k = Set
		default:
			return nil, fmt.Errorf("list or set expected, got %q", t)
		}
		if err := tp.expect("<"); err != nil {
			return nil, err
		}
		e, err := tp.parse(gt.Elem(), true)
		if err != nil {
			return nil, err
		}
		if e.Ptr && e.K != StructK {
			return nil, fmt.Errorf("pointer to non-struct as element")
		}
		return &Type{K: k, Elem: e}, tp.expect(">")
	case reflect.Map:
		if err := kw("map"); err != nil {
			return nil, err
		}
		if err := tp.expect("<"); err != nil {
			return nil, err
		}
		k, err := tp.parse(gt.Key(), true)
		if err != nil {
			return nil, err
		}
		switch {
		case k.K == StructK && k.Ptr:
		case k.IsScalar() && !k.Ptr, k.K == String && !k.Ptr:
		default:
			return nil, fmt.Errorf("invalid map key type %v", gt.Key())
		}
		if err := tp.expect(":"); err != nil {
			return nil, err
		}
		v, err := tp.parse(gt.Elem(), true)
		if err != nil {
			return nil, err
		}
		if v.Ptr && v.K != StructK {
			return nil, fmt.Errorf("pointer to non-struct as map value")
		}
		return &Type{K: Map, Key: k, Elem: v}, tp.expect(">")
	}
	return nil, fmt.Errorf("unsupported Go type %v", gt)
}

