#!/bin/bash
# sweep_thorough.sh [ids...] : runs the thorough tier of the given checks (default: all), timing each
cd "$(dirname "$(readlink -f "$0")")"
if [ -n "$VP_RUN_REPO" ]; then sed -i "s#=> /repo#=> $VP_RUN_REPO#" go.mod; fi
ids="$@"; [ -z "$ids" ] && ids="C01 C02 C03 C04 C05 C06 C07 C08 C09 C10 C11 C12 C13 C14 C15 C16 C17 C18"
for c in $ids; do
  t0=$(date +%s)
  VERIF_SEED=${VERIF_SEED:-1} ./run.sh $c thorough > out_thorough_$c.txt 2>&1; rc=$?
  echo "$c rc=$rc $(( $(date +%s) - t0 ))s $(tail -1 out_thorough_$c.txt)"
  grep -E "^(VIOLATION|INCONCLUSIVE|KNOWN)" out_thorough_$c.txt | head -5
done
